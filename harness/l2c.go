//go:build verif

package main

// C20: CREATE VIRTUAL TABLE ... USING s3db(...) argument handling.
// Column specifications are generated as TOKEN lists (the model's level) and rendered into text
// in many spellings (case, white space, quoting).  Three probes per case:
//   schema: convertSchema on the rendered columns text (hook VerifParseSchema)  vs  model
//   targs : s3db.New with a rendered argument list (panics recovered)           vs  model
//   sqlc  : the real CREATE VIRTUAL TABLE through SQLite, PRAGMA table_info, a NULL insert into
//           a NOT NULL column, and a second CREATE of the same name after a failure
//           vs  the specification derived from the tokens (printed by the oracle after ' | ')

import (
	"bufio"
	"context"
	"database/sql"
	"fmt"
	"math/rand"
	"os"
	"sort"
	"strings"

	"github.com/jrhy/s3db"
)

type ctok struct {
	kind string // n t pk nn uq , ( ) o
	s    string
}

var namePool = []string{"a", "b", "c", "d", "k", "id", "nm", "val", "x1", "col_2", "Zed", "a b", "x.y"}
var typePool = []string{"text", "varchar", "integer", "number", "real"}

func (g *gen) genCols(stats map[string]int) []ctok {
	var ts []ctok
	n := 1 + g.r.Intn(4)
	perm := g.r.Perm(len(namePool))
	names := make([]string, n)
	for i := range names {
		names[i] = namePool[perm[i]]
	}
	if g.r.Intn(10) == 0 && n > 1 {
		names[n-1] = names[0] // duplicate column
		stats["c20_dup_column"]++
	}
	pkCol := -1
	if g.r.Intn(10) < 6 {
		pkCol = g.r.Intn(n)
	}
	tablePK := 0
	if pkCol < 0 && g.r.Intn(3) == 0 {
		tablePK = 1 + g.r.Intn(2)
	}
	mal := ""
	if g.r.Intn(5) == 0 {
		mal = []string{"unique", "twopk", "default", "nocomma", "trailing", "literal", "undefpk", "typetwice"}[g.r.Intn(8)]
		stats["c20_malformed_"+mal]++
	}
	emitTablePK := func() {
		ts = append(ts, ctok{kind: "pk"}, ctok{kind: "("})
		for j := 0; j < tablePK; j++ {
			if j > 0 {
				ts = append(ts, ctok{kind: ","})
			}
			nm := names[j%n]
			if mal == "undefpk" {
				nm = "nosuchcol"
			}
			ts = append(ts, ctok{kind: "n", s: nm})
		}
		ts = append(ts, ctok{kind: ")"})
	}
	pkFirst := g.r.Intn(2) == 0
	if tablePK > 0 && pkFirst {
		emitTablePK()
		ts = append(ts, ctok{kind: ","})
	}
	for i := 0; i < n; i++ {
		if i > 0 && !(mal == "nocomma" && i == 1) {
			ts = append(ts, ctok{kind: ","})
		}
		ts = append(ts, ctok{kind: "n", s: names[i]})
		if g.r.Intn(2) == 0 {
			ts = append(ts, ctok{kind: "t", s: typePool[g.r.Intn(len(typePool))]})
			if mal == "typetwice" && i == 0 {
				ts = append(ts, ctok{kind: "t", s: typePool[g.r.Intn(len(typePool))]})
			}
		}
		var cons []ctok
		if i == pkCol {
			cons = append(cons, ctok{kind: "pk"})
		}
		if g.r.Intn(10) < 3 {
			cons = append(cons, ctok{kind: "nn"})
		}
		if mal == "unique" && i == 0 {
			cons = append(cons, ctok{kind: "uq"})
		}
		if mal == "twopk" && i != pkCol && i == n-1 {
			cons = append(cons, ctok{kind: "pk"})
		}
		g.r.Shuffle(len(cons), func(a, b int) { cons[a], cons[b] = cons[b], cons[a] })
		ts = append(ts, cons...)
		if mal == "default" && i == 0 {
			ts = append(ts, ctok{kind: "o", s: "default 5"})
		}
		if mal == "literal" && i == n-1 {
			ts = append(ts, ctok{kind: "o", s: "17"})
		}
	}
	if tablePK > 0 && !pkFirst {
		ts = append(ts, ctok{kind: ","})
		emitTablePK()
	}
	if mal == "trailing" {
		ts = append(ts, ctok{kind: ","})
	}
	return ts
}

func (g *gen) mixCase(s string) string {
	b := []byte(s)
	switch g.r.Intn(3) {
	case 0:
		return strings.ToUpper(s)
	case 1:
		for i := range b {
			if g.r.Intn(2) == 0 && b[i] >= 'a' && b[i] <= 'z' {
				b[i] -= 32
			}
		}
		return string(b)
	}
	return s
}

func (g *gen) ws(min int) string {
	n := min + g.r.Intn(2)
	s := ""
	for i := 0; i < n; i++ {
		s += []string{" ", " ", "\n", "\t"}[g.r.Intn(4)]
	}
	return s
}

// text of a column specification (the value of columns=, before outer quoting)
func (g *gen) render(ts []ctok) string {
	var sb strings.Builder
	for i, t := range ts {
		if i > 0 {
			sb.WriteString(g.ws(1))
		}
		switch t.kind {
		case "n":
			plain := !strings.ContainsAny(t.s, " ")
			switch {
			case plain && g.r.Intn(3) > 0:
				sb.WriteString(t.s)
			case g.r.Intn(2) == 0:
				sb.WriteString(`"` + t.s + `"`)
			default:
				sb.WriteString(`'` + t.s + `'`)
			}
		case "t":
			sb.WriteString(g.mixCase(t.s))
		case "pk":
			sb.WriteString(g.mixCase("primary") + g.ws(1) + g.mixCase("key"))
		case "nn":
			sb.WriteString(g.mixCase("not") + g.ws(1) + g.mixCase("null"))
		case "uq":
			sb.WriteString(g.mixCase("unique"))
		case "o":
			sb.WriteString(t.s)
		default:
			sb.WriteString(t.kind)
		}
	}
	return sb.String()
}

func (w *tw) ctoks(ts []ctok) {
	w.i(len(ts))
	for _, t := range ts {
		switch t.kind {
		case "n", "t":
			w.s(t.kind)
			w.bytes([]byte(t.s))
		default:
			w.s(t.kind)
		}
	}
}

func outerQuote(s string) string { return "'" + strings.ReplaceAll(s, "'", "''") + "'" }

type targ struct {
	kind int // 0 columns .. 6 s3_prefix, 7 unknown
	text string
	val  string // model view: cols | int t | int f | text | none
	cols []ctok
}

var optNames = []string{"columns", "entries_per_node", "node_cache_entries", "readonly", "s3_bucket", "s3_endpoint", "s3_prefix", "frobnicate"}
var goodInts = []string{"10", "0", "4096", "0x10", "2"}
var badInts = []string{"abc", "", "99999999999", "zz", "1e3", "1.5", "ten", "-3", "-1", "-4096"} // (negative: out of range)

func (g *gen) genArgs(stats map[string]int, simple bool) ([]targ, []ctok) {
	var args []targ
	cols := g.genCols(stats)
	if simple || g.r.Intn(10) > 0 {
		args = append(args, targ{kind: 0, text: "columns=" + outerQuote(g.render(cols)), val: "cols", cols: cols})
	} else {
		stats["c20_no_columns"]++
	}
	extra := g.r.Intn(3)
	for i := 0; i < extra; i++ {
		k := 1 + g.r.Intn(7)
		noEq := !simple && g.r.Intn(12) == 0 && k != 3
		if (k == 4 || k == 5) && !noEq {
			k = 6 // a bucket or endpoint with a value would make New talk to a real S3 endpoint
		}
		if simple && k == 6 {
			k = 3
		}
		a := targ{kind: k}
		switch k {
		case 1, 2:
			if g.r.Intn(4) > 0 || simple {
				v := goodInts[g.r.Intn(len(goodInts))]
				if simple {
					v = []string{"10", "4096", "2"}[g.r.Intn(3)]
				}
				a.text, a.val = optNames[k]+"="+v, "int t"
			} else if k == 1 && g.r.Intn(4) == 0 {
				a.text, a.val = optNames[k]+"=1", "int f" // a branch factor of 1 is refused (fix in /repo)
				stats["c20_epn_one"]++
			} else {
				a.text, a.val = optNames[k]+"="+badInts[g.r.Intn(len(badInts))], "int f"
				stats["c20_bad_int"]++
			}
		case 3:
			a.text, a.val = "readonly", "none"
			if !simple && g.x().Intn(4) == 0 {
				// readonly is a flag: a value (readonly=no would have meant read-only) is malformed
				a.text, a.val = "readonly="+[]string{"no", "yes", "0", "1", "true", "'on'"}[g.x().Intn(6)], "text"
				stats["c20_readonly_with_value"]++
			}
		case 7:
			a.text, a.val = "frobnicate=1", "text"
			stats["c20_unknown_option"]++
		default:
			a.text, a.val = optNames[k]+"='p"+fmt.Sprint(g.r.Intn(5))+"'", "text"
		}
		if noEq {
			a.text, a.val = optNames[k], "none" // no '=' at all
			stats["c20_no_equals"]++
		}
		args = append(args, a)
	}
	if !simple && len(args) > 0 && g.r.Intn(10) == 0 {
		args = append(args, args[g.r.Intn(len(args))]) // duplicated option
		stats["c20_duplicated"]++
	}
	g.r.Shuffle(len(args), func(a, b int) { args[a], args[b] = args[b], args[a] })
	return args, cols
}

func (w *tw) targs(args []targ) {
	w.i(len(args))
	for _, a := range args {
		w.i(a.kind)
		if a.val == "cols" {
			w.s("cols")
			w.ctoks(a.cols)
		} else {
			for _, f := range strings.Fields(a.val) {
				w.s(f)
			}
		}
	}
}

func registered(name string) bool {
	for _, n := range s3db.VerifTableNames() {
		if n == name {
			return true
		}
	}
	return false
}

var c20counter int

func runL2C(seed int64, n int, dir string) error {
	g := &gen{r: rand.New(rand.NewSource(seed))}
	cf, err := os.Create(dir + "/cases.txt")
	if err != nil {
		return err
	}
	defer cf.Close()
	jf, err := os.Create(dir + "/impl.txt")
	if err != nil {
		return err
	}
	defer jf.Close()
	cw, iw := bufio.NewWriter(cf), bufio.NewWriter(jf)
	defer cw.Flush()
	defer iw.Flush()
	id := 0
	emit := func(fn string, in, out *tw) {
		id++
		fmt.Fprintf(cw, "%d %s%s\n", id, fn, in.String())
		fmt.Fprintf(iw, "%d%s\n", id, out.String())
	}
	stats := map[string]int{}
	ctx := context.Background()
	for c := 0; c < n; c++ {
		// ---- convertSchema
		{
			ts := g.genCols(stats)
			text := g.render(ts)
			in, out := &tw{}, &tw{}
			in.ctoks(ts)
			if catch(func() {
				s, key, rowid, err := s3db.VerifParseSchema(text)
				if err != nil {
					out.s("err")
					stats["c20_schema_err"]++
				} else {
					out.s("ok")
					out.bytes([]byte(s))
					out.i(key)
					out.b(rowid)
					stats["c20_schema_ok"]++
				}
			}) {
				out = &tw{}
				out.s("panic")
			}
			in.s("#")
			in.bytes([]byte(text))
			emit("schema", in, out)
		}
		// ---- s3db.New
		{
			args, _ := g.genArgs(stats, false)
			c20counter++
			name := fmt.Sprintf("c20t%d", c20counter)
			argv := []string{name}
			for _, a := range args {
				argv = append(argv, a.text)
			}
			in, out := &tw{}, &tw{}
			in.targs(args)
			var tbl *s3db.VirtualTable
			var err error
			if catch(func() { tbl, err = s3db.New(ctx, argv) }) {
				out.s("panic")
				stats["c20_new_panic"]++
			} else if err != nil {
				out.s("err")
				stats["c20_new_err"]++
			} else {
				out.s("ok")
				out.b(tbl.S3Options.ReadOnly)
				out.bytes([]byte(tbl.SchemaString))
				out.i(tbl.KeyCol)
				out.b(strings.Contains(tbl.SchemaString, "x(_rowid_ HIDDEN"))
				stats["c20_new_ok"]++
			}
			if tbl != nil && err == nil {
				tbl.Disconnect()
			} else if registered(name) {
				out.s("LEAK")
			}
			in.s("#")
			in.bytes([]byte(strings.Join(argv[1:], ", ")))
			emit("targs", in, out)
		}
		// ---- through SQLite
		if c%2 == 0 {
			args, cols := g.genArgs(stats, true)
			c20counter++
			name := fmt.Sprintf("c20s%d", c20counter)
			var texts []string
			for _, a := range args {
				texts = append(texts, a.text)
			}
			stmt := fmt.Sprintf("create virtual table %s using s3db(%s)", name, strings.Join(texts, ",\n"))
			in, out := &tw{}, &tw{}
			in.targs(args)
			db, err := sql.Open("sqlite3", ":memory:")
			if err != nil {
				return err
			}
			db.SetMaxOpenConns(1)
			_, cerr := db.Exec(stmt)
			if cerr != nil {
				out.s("err")
				stats["c20_sql_err"]++
				if registered(name) {
					out.s("LEAK")
				}
				// the name must be free again
				if _, e2 := db.Exec(fmt.Sprintf("create virtual table %s using s3db(columns='a primary key, b')", name)); e2 != nil {
					out.s("NAME-TAKEN")
				}
			} else {
				out.s("ok")
				stats["c20_sql_ok"]++
				rows, qerr := db.Query(fmt.Sprintf("select name, type, \"notnull\", pk from pragma_table_info('%s')", name))
				if qerr != nil {
					out.s("TIERR")
				} else {
					var sub tw
					k := 0
					for rows.Next() {
						var nm, ty string
						var nn, pk int
						rows.Scan(&nm, &ty, &nn, &pk)
						k++
						sub.bytes([]byte(nm))
						sub.bytes([]byte(strings.ToLower(ty)))
						sub.b(nn != 0)
						sub.b(pk != 0)
					}
					rows.Close()
					out.s("TI")
					out.i(k)
					out.sb.WriteString(sub.String())
				}
				// NOT NULL behaviour: a NULL in the first NOT NULL non-key column must be refused
				if nnCol, allCols := firstNotNull(cols); nnCol != "" && !hasReadonly(args) {
					var names, vals []string
					for i, cn := range allCols {
						names = append(names, `"`+cn+`"`)
						if cn == nnCol {
							vals = append(vals, "NULL")
						} else {
							vals = append(vals, fmt.Sprint(i+1))
						}
					}
					_, ierr := db.Exec(fmt.Sprintf("insert into %s(%s) values(%s)", name, strings.Join(names, ","), strings.Join(vals, ",")))
					if ierr == nil {
						out.s("NULL-ACCEPTED")
					} else {
						out.s("NULL-REFUSED")
					}
				}
			}
			db.Close()
			in.s("#")
			in.bytes([]byte(stmt))
			emit("sqlc", in, out)
		}
	}
	for k := 0; k < 2; k++ {
		id++
		fmt.Fprintf(cw, "%d probe rejected-at-storage-leaves-no-table\n", id)
		fmt.Fprintf(iw, "%d %s\n", id, probeRejectedAtStorage())
	}
	id++
	fmt.Fprintf(cw, "%d probe argument-order-does-not-matter\n", id)
	fmt.Fprintf(iw, "%d %s\n", id, probeArgOrder())
	sf, _ := os.Create(dir + "/stats.txt")
	defer sf.Close()
	keys := make([]string, 0, len(stats))
	for k := range stats {
		keys = append(keys, k)
	}
	sort.Strings(keys)
	for _, k := range keys {
		fmt.Fprintf(sf, "%s %d\n", k, stats[k])
	}
	return nil
}

func hasReadonly(args []targ) bool {
	for _, a := range args {
		if a.kind == 3 {
			return true
		}
	}
	return false
}

// first column declared NOT NULL that is not the key; and all column names in order
func firstNotNull(ts []ctok) (string, []string) {
	var names []string
	nn := ""
	cur := ""
	isKey := map[string]bool{}
	notNull := map[string]bool{}
	inPK := false
	for _, t := range ts {
		switch t.kind {
		case "(":
			inPK = true
		case ")":
			inPK = false
		case "n":
			if inPK {
				isKey[t.s] = true
			} else {
				cur = t.s
				names = append(names, t.s)
			}
		case "pk":
			if cur != "" && !inPK {
				isKey[cur] = true
			}
		case "nn":
			notNull[cur] = true
		case ",":
			if !inPK {
				cur = ""
			}
		}
	}
	for _, n := range names {
		if notNull[n] && !isKey[n] {
			nn = n
			break
		}
	}
	return nn, names
}
