//go:build verif

package main

import (
	"context"
	"fmt"
	"time"

	"github.com/jrhy/s3db/kv"
)

// C09 (recorded finding F-C09-2): history deletion with a cutoff keeps every version created AT or
// after the cutoff readable.  A handle stamps all its commits with the time it was opened, so its
// first version and the successor that supersedes it carry the same time T; deleting history with
// the cutoff T must keep both.  (With the cutoff one nanosecond earlier it does.)
func probeVersionCreatedAtCutoff() string {
	ctx := context.Background()
	T := time.Unix(1700000100, 0)
	for _, c := range []struct {
		cutoff time.Time
		what   string
	}{{T.Add(-time.Nanosecond), "one nanosecond before"}, {T, "exactly at"}} {
		st := newFakeS3()
		cfg := kv.Config{
			Storage:    &kv.S3BucketInfo{EndpointURL: "fake", BucketName: "b", Prefix: "cut"},
			KeysLike:   "key",
			ValuesLike: "value",
		}
		db, err := kv.Open(ctx, st, cfg, kv.OpenOptions{}, T)
		if err != nil {
			return "FAIL open: " + err.Error()
		}
		if err := db.Set(ctx, T.Add(time.Second), "a", "one"); err != nil {
			return "FAIL set: " + err.Error()
		}
		if _, err := db.Commit(ctx); err != nil {
			return "FAIL commit: " + err.Error()
		}
		r1, err := db.Roots()
		if err != nil || len(r1) != 1 {
			return fmt.Sprintf("FAIL roots: %v %v", r1, err)
		}
		if err := db.Set(ctx, T.Add(2*time.Second), "a", "two"); err != nil {
			return "FAIL set: " + err.Error()
		}
		if _, err := db.Commit(ctx); err != nil {
			return "FAIL commit: " + err.Error()
		}
		if err := kv.DeleteHistoricVersions(ctx, db, c.cutoff); err != nil {
			return "FAIL delete history: " + err.Error()
		}
		rd, err := kv.Open(ctx, st, cfg, kv.OpenOptions{ReadOnly: true, OnlyVersions: r1}, T.Add(time.Hour))
		if err != nil {
			return fmt.Sprintf("FAIL a version created %s the cutoff cannot be opened after the history deletion: %v", c.what, err)
		}
		var v string
		ok, err := rd.Get(ctx, "a", &v)
		if err != nil || !ok || v != "one" {
			return fmt.Sprintf("FAIL a version created %s the cutoff reads %v %q %v after the history deletion", c.what, ok, v, err)
		}
	}
	return "ok"
}
