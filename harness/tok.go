//go:build verif

package main

// Token formats shared with oracle/driver.ml.

import (
	"encoding/hex"
	"fmt"
	"math"
	"sort"
	"strconv"
	"strings"
	"time"

	"github.com/jrhy/s3db"
	"github.com/jrhy/s3db/kv/crdt"
	v1proto "github.com/jrhy/s3db/proto/v1"
	"google.golang.org/protobuf/types/known/durationpb"
)

type tw struct{ sb strings.Builder }

func (w *tw) s(x string) { w.sb.WriteByte(' '); w.sb.WriteString(x) }
func (w *tw) z(x int64)  { w.s(strconv.FormatInt(x, 10)) }
func (w *tw) u(x uint64) { w.s(strconv.FormatUint(x, 10)) }
func (w *tw) i(x int)    { w.s(strconv.Itoa(x)) }
func (w *tw) b(x bool) {
	if x {
		w.s("t")
	} else {
		w.s("f")
	}
}
func (w *tw) bytes(x []byte) { w.s("x" + hex.EncodeToString(x)) }
func (w *tw) String() string { return w.sb.String() }

// model value
type sval struct {
	tag  byte // N I R T B
	i    int64
	bits uint64
	bs   []byte
}

func (w *tw) sval(v sval) {
	switch v.tag {
	case 'N':
		w.s("N")
	case 'I':
		w.s("I")
		w.z(v.i)
	case 'R':
		w.s("R")
		w.u(v.bits)
	case 'T':
		w.s("T")
		w.bytes(v.bs)
	case 'B':
		w.s("B")
		w.bytes(v.bs)
	}
}

func (v sval) goValue() interface{} {
	switch v.tag {
	case 'I':
		return v.i
	case 'R':
		return math.Float64frombits(v.bits)
	case 'T':
		return string(v.bs)
	case 'B':
		return v.bs
	}
	return nil
}

func (v sval) proto() *v1proto.SQLiteValue { return s3db.NewKey(v.goValue()).SQLiteValue }

func svalOfProto(p *v1proto.SQLiteValue) sval {
	if p == nil {
		return sval{tag: 'N'}
	}
	switch p.Type {
	case v1proto.Type_INT:
		return sval{tag: 'I', i: p.Int}
	case v1proto.Type_REAL:
		return sval{tag: 'R', bits: math.Float64bits(p.Real)}
	case v1proto.Type_TEXT:
		return sval{tag: 'T', bs: []byte(p.Text)}
	case v1proto.Type_BLOB:
		return sval{tag: 'B', bs: p.Blob}
	}
	return sval{tag: 'N'}
}

func svalOfGo(x interface{}) sval {
	switch v := x.(type) {
	case nil:
		return sval{tag: 'N'}
	case int64:
		return sval{tag: 'I', i: v}
	case int:
		return sval{tag: 'I', i: int64(v)}
	case float64:
		return sval{tag: 'R', bits: math.Float64bits(v)}
	case string:
		return sval{tag: 'T', bs: []byte(v)}
	case []byte:
		return sval{tag: 'B', bs: v}
	}
	panic(fmt.Sprintf("svalOfGo %T", x))
}

// model row (positional columns c0..c{n-1})
type mcol struct {
	present bool
	uoff    int64
	v       sval
}
type mrow struct {
	del  bool
	doff int64
	cols []mcol
}

func colName(i int) string { return "c" + strconv.Itoa(i) }
func colIndex(name string) int {
	n, err := strconv.Atoi(strings.TrimPrefix(name, "c"))
	if err != nil {
		return 1000
	}
	return n
}

func (w *tw) mrow(r mrow) {
	w.b(r.del)
	w.z(r.doff)
	w.i(len(r.cols))
	for _, c := range r.cols {
		if !c.present {
			w.s("_")
		} else {
			w.s("S")
			w.z(c.uoff)
			w.sval(c.v)
		}
	}
}

// protoCanon: like proto but with every Duration present (as after a merge), so that
// logically equal rows serialise to equal bytes
func (r mrow) protoCanon() *v1proto.Row {
	p := r.proto()
	if p.DeleteUpdateOffset == nil {
		p.DeleteUpdateOffset = durationpb.New(0)
	}
	for _, cv := range p.ColumnValues {
		if cv.UpdateOffset == nil {
			cv.UpdateOffset = durationpb.New(0)
		}
	}
	return p
}

func (r mrow) proto() *v1proto.Row {
	p := &v1proto.Row{Deleted: r.del, ColumnValues: map[string]*v1proto.ColumnValue{}}
	if r.doff != 0 {
		p.DeleteUpdateOffset = durationpb.New(time.Duration(r.doff))
	}
	for i, c := range r.cols {
		if c.present {
			cv := &v1proto.ColumnValue{Value: c.v.proto()}
			if c.uoff != 0 {
				cv.UpdateOffset = durationpb.New(time.Duration(c.uoff))
			}
			p.ColumnValues[colName(i)] = cv
		}
	}
	return p
}

// canonical row: D|L <abs delete time> <n> (<idx> <abs update time> <sval>)*
func (w *tw) absRow(t int64, p *v1proto.Row) {
	if p.Deleted {
		w.s("D")
	} else {
		w.s("L")
	}
	w.z(t + int64(p.DeleteUpdateOffset.AsDuration()))
	names := make([]string, 0, len(p.ColumnValues))
	for k := range p.ColumnValues {
		names = append(names, k)
	}
	sort.Slice(names, func(a, b int) bool { return colIndex(names[a]) < colIndex(names[b]) })
	w.i(len(names))
	for _, k := range names {
		cv := p.ColumnValues[k]
		w.i(colIndex(k))
		w.z(t + int64(cv.UpdateOffset.AsDuration()))
		w.sval(svalOfProto(cv.Value))
	}
}

// crdt value with a row payload
type mcval struct {
	md, tomb int64
	prev     int64
	has      bool
	row      mrow
}

func (w *tw) mcval(v mcval) {
	w.z(v.md)
	w.z(v.tomb)
	w.z(v.prev)
	if v.has {
		w.s("S")
		w.mrow(v.row)
	} else {
		w.s("_")
	}
}

func prevName(p int64) string {
	if p == 0 {
		return ""
	}
	return "v" + strconv.FormatInt(p, 10)
}
func prevID(s string) int64 {
	if s == "" {
		return 0
	}
	n, err := strconv.ParseInt(strings.TrimPrefix(s, "v"), 10, 64)
	if err != nil {
		return -1
	}
	return n
}

func (v mcval) crdt() crdt.Value {
	cv := crdt.Value{ModEpochNanos: v.md, TombstoneSinceEpochNanos: v.tomb, PreviousRoot: prevName(v.prev)}
	if v.has {
		cv.Value = v.row.proto()
	} else {
		cv.Value = (*v1proto.Row)(nil)
	}
	return cv
}

func (w *tw) cvalRow(v crdt.Value) {
	w.z(v.ModEpochNanos)
	w.z(v.TombstoneSinceEpochNanos)
	w.z(prevID(v.PreviousRoot))
	r, _ := v.Value.(*v1proto.Row)
	if r == nil {
		w.s("_")
	} else {
		w.s("S")
		w.absRow(v.ModEpochNanos, r)
	}
}
