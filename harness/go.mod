module verif/harness

go 1.25.0

require (
	github.com/aws/aws-sdk-go v1.55.8
	github.com/johannesboyne/gofakes3 v1.2.0
	github.com/jrhy/mast v1.2.33
	github.com/jrhy/s3db v0.0.0
	github.com/mattn/go-sqlite3 v1.14.49
	golang.org/x/crypto v0.55.0
	google.golang.org/protobuf v1.36.12
)

require (
	github.com/hashicorp/golang-lru v1.0.2 // indirect
	github.com/jmespath/go-jmespath v0.4.0 // indirect
	github.com/johncgriffin/overflow v0.0.0-20211019200055-46fa312c352c // indirect
	github.com/mattn/go-pointer v0.0.1 // indirect
	github.com/minio/blake2b-simd v0.0.0-20160723061019-3f5f724cb5b1 // indirect
	github.com/ryszard/goskiplist v0.0.0-20150312221310-2dfbae5fcf46 // indirect
	github.com/segmentio/ksuid v1.0.4 // indirect
	go.riyazali.net/sqlite v0.0.0-20250204091031-8aa392720bb1 // indirect
	golang.org/x/sys v0.47.0 // indirect
)

replace github.com/jrhy/s3db => /repo
