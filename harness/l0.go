//go:build verif

package main

// L0: pure-function correspondence. Generates inputs from one PRNG, calls the real
// functions of /repo and writes cases.txt (inputs, oracle format) and impl.txt (outputs).

import (
	"encoding/base64"
	"golang.org/x/crypto/argon2"
	"bufio"
	"bytes"
	"fmt"
	"math"
	"math/rand"
	"os"
	"time"
	"unicode/utf8"

	"github.com/jrhy/mast"
	"github.com/jrhy/s3db"
	"github.com/jrhy/s3db/kv"
	"github.com/jrhy/s3db/kv/crdt"
	"golang.org/x/crypto/nacl/secretbox"
)

type gen struct {
	r   *rand.Rand
	aux *rand.Rand // choices added after the seeded changes were recorded: their own stream, so that the histories of r stay what they were
}

var auxSeed int64

func (g *gen) x() *rand.Rand {
	if g.aux == nil {
		g.aux = rand.New(rand.NewSource(auxSeed*7919 + 13))
	}
	return g.aux
}

var boundaryInts = []int64{0, 1, -1, 2, 3, 4, 8, 16, 64, 4096, 1 << 53, 1<<53 - 1, 1<<53 + 1, 1<<53 + 2, 1<<53 + 3,
	-(1 << 53), -(1<<53 + 1), -(1<<53 - 1), 1 << 62, 1<<62 + 1, math.MaxInt64, math.MaxInt64 - 1, math.MinInt64, math.MinInt64 + 1,
	1<<54 + 2, 1<<54 + 4, 1<<60 + 64, 1<<60 + 128, 1<<60 + 192, 1000000007}

var boundaryReals = []float64{0, math.Copysign(0, -1), 1, -1, 2, 3, 4, 0.5, 1.5, -1.5, 1 << 53, 1<<53 + 2, -(1 << 53), 1 << 62, 1 << 63, -(1 << 63),
	math.Inf(1), math.Inf(-1), math.SmallestNonzeroFloat64, -math.SmallestNonzeroFloat64, math.MaxFloat64, -math.MaxFloat64,
	1e300, 2.2250738585072014e-308, 8, 16, 64, 4096, 9007199254740994, 1 << 54, 1<<60 + 256, 0.1, 1e-5}

var boundaryBytes = [][]byte{{}, {0}, {0, 0}, []byte("a"), []byte("A"), []byte("ab"), []byte("b"), []byte("aa"), []byte("\xc3\xa9"),
	[]byte("\xf0\x9f\x98\x80"), []byte("z"), []byte("hello world"), {0xff}, {0x7f}, {0x80}, []byte("a\x00b")}

func (g *gen) int64() int64 {
	switch g.r.Intn(4) {
	case 0:
		return boundaryInts[g.r.Intn(len(boundaryInts))]
	case 1:
		return int64(g.r.Intn(21) - 10)
	case 2:
		return boundaryInts[g.r.Intn(len(boundaryInts))] + int64(g.r.Intn(5)-2)
	default:
		return int64(g.r.Uint64())
	}
}

func (g *gen) real(allowNaN bool) float64 {
	for {
		var f float64
		switch g.r.Intn(5) {
		case 0, 1:
			f = boundaryReals[g.r.Intn(len(boundaryReals))]
		case 2:
			f = float64(g.int64())
		case 3:
			f = float64(g.r.Intn(21)-10) / 2
		default:
			f = math.Float64frombits(g.r.Uint64())
		}
		if math.IsNaN(f) && !allowNaN {
			continue
		}
		return f
	}
}

func (g *gen) bytesv() []byte {
	if g.r.Intn(3) > 0 {
		return boundaryBytes[g.r.Intn(len(boundaryBytes))]
	}
	n := g.r.Intn(6)
	b := make([]byte, n)
	for i := range b {
		b[i] = byte(g.r.Intn(256))
	}
	return b
}

func (g *gen) text() []byte {
	if g.r.Intn(3) > 0 {
		return boundaryBytes[g.r.Intn(len(boundaryBytes))]
	}
	n := g.r.Intn(6)
	b := make([]byte, n)
	for i := range b {
		b[i] = byte(97 + g.r.Intn(4))
	}
	return b
}

// key-like value; nullOK adds NULL, nan adds NaN reals
func (g *gen) sval(nullOK, nan bool) sval {
	k := g.r.Intn(9)
	if nullOK && g.r.Intn(12) == 0 {
		return sval{tag: 'N'}
	}
	switch {
	case k < 3:
		return sval{tag: 'I', i: g.int64()}
	case k < 6:
		return sval{tag: 'R', bits: math.Float64bits(g.real(nan))}
	case k < 8:
		return sval{tag: 'T', bs: g.text()}
	default:
		return sval{tag: 'B', bs: g.bytesv()}
	}
}

// small value pool for row contents
func (g *gen) smallVal() sval {
	switch g.r.Intn(6) {
	case 0:
		return sval{tag: 'N'}
	case 1, 2:
		return sval{tag: 'I', i: int64(g.r.Intn(5))}
	case 3:
		return sval{tag: 'R', bits: math.Float64bits(float64(g.r.Intn(4)) / 2)}
	case 4:
		return sval{tag: 'T', bs: []byte{byte(97 + g.r.Intn(3))}}
	default:
		return sval{tag: 'B', bs: []byte{byte(g.r.Intn(3))}}
	}
}

const baseTime int64 = 1700000000000000000

func (g *gen) lat() int64 { return baseTime + int64(g.r.Intn(6))*10 }

func (g *gen) row(ncols int, inv bool) mrow {
	r := mrow{del: g.r.Intn(3) == 0}
	if !inv && g.r.Intn(2) == 0 {
		r.doff = int64(g.r.Intn(7)-3) * 5
	}
	if r.del && g.r.Intn(4) > 0 {
		return r
	}
	r.cols = make([]mcol, ncols)
	for i := range r.cols {
		if inv || g.r.Intn(4) > 0 {
			c := mcol{present: true, v: g.smallVal()}
			if !inv && g.r.Intn(2) == 0 {
				c.uoff = int64(g.r.Intn(7)-3) * 5
			}
			r.cols[i] = c
		}
	}
	if inv && r.del {
		r.cols = nil
	}
	return r
}

func catch(f func()) (panicked bool) {
	defer func() {
		if recover() != nil {
			panicked = true
		}
	}()
	f()
	return
}

func runL0(seed int64, n int, dir string) error {
	g := &gen{r: rand.New(rand.NewSource(seed))}
	cf, err := os.Create(dir + "/cases.txt")
	if err != nil {
		return err
	}
	defer cf.Close()
	jf, err := os.Create(dir + "/impl.txt")
	if err != nil {
		return err
	}
	defer jf.Close()
	cw, iw := bufio.NewWriter(cf), bufio.NewWriter(jf)
	defer cw.Flush()
	defer iw.Flush()
	id := 0
	emit := func(fn string, in, out *tw) {
		id++
		fmt.Fprintf(cw, "%d %s%s\n", id, fn, in.String())
		fmt.Fprintf(iw, "%d%s\n", id, out.String())
	}
	stats := map[string]int{}
	for c := 0; c < n; c++ {
		// --- Key.Order
		{
			a, b := g.sval(true, c%50 == 0), g.sval(true, c%50 == 0)
			if g.r.Intn(4) == 0 { // near-equal numeric pairs
				x := g.int64()
				a = sval{tag: 'I', i: x}
				b = sval{tag: 'R', bits: math.Float64bits(float64(x))}
				if g.r.Intn(3) == 0 { // an integer and a REAL with the same integer part, either sign
					x = int64(g.r.Intn(17)) - 8
					a = sval{tag: 'I', i: x}
					fr := []float64{-0.75, -0.5, -0.25, 0.25, 0.5, 0.75}[g.r.Intn(6)]
					b = sval{tag: 'R', bits: math.Float64bits(float64(x) + fr)}
				}
				if g.r.Intn(2) == 0 {
					a, b = b, a
				}
			}
			in, out := &tw{}, &tw{}
			in.sval(a)
			in.sval(b)
			var res int
			if catch(func() { res = s3db.NewKey(a.goValue()).Order(s3db.NewKey(b.goValue())) }) {
				out.s("P")
				stats["order_panic"]++
			} else {
				out.i(res)
				stats[fmt.Sprintf("order_%c%c_%d", a.tag, b.tag, res)]++
			}
			emit("order", in, out)
		}
		// --- Key.Layer
		{
			a := g.sval(true, false)
			if g.r.Intn(3) == 0 {
				bf := []int64{2, 3, 4, 5, 16}[g.r.Intn(5)]
				p := int64(1)
				for k := g.r.Intn(6); k > 0; k-- {
					p *= bf
				}
				a = sval{tag: 'I', i: p * int64(g.r.Intn(9)-4)}
				if g.r.Intn(2) == 0 {
					a = sval{tag: 'R', bits: math.Float64bits(float64(a.i))}
				}
			}
			bf := []uint{2, 3, 4, 5, 16, 4096}[g.r.Intn(6)]
			in, out := &tw{}, &tw{}
			in.sval(a)
			in.z(int64(bf))
			var res uint8
			if catch(func() { res = s3db.NewKey(a.goValue()).Layer(bf) }) {
				out.s("P")
			} else {
				out.i(int(res))
				stats[fmt.Sprintf("layer_%c_%d", a.tag, min(int(res), 3))]++
			}
			emit("layer", in, out)
		}
		// --- Key.Layer of two keys that may be equal in SQLite's order
		{
			var a, b sval
			switch g.r.Intn(4) {
			case 0: // numerically equal INTEGER / REAL
				x := int64(g.r.Intn(41) - 20)
				if g.r.Intn(3) == 0 {
					x = boundaryInts[g.r.Intn(len(boundaryInts))]
				}
				if float64(x) != float64(int64(float64(x))) || x > 1<<53 || x < -(1<<53) {
					x = int64(g.r.Intn(1000))
				}
				a = sval{tag: 'I', i: x}
				b = sval{tag: 'R', bits: math.Float64bits(float64(x))}
			case 1: // the two zeros
				a = sval{tag: 'R', bits: 0}
				b = sval{tag: 'R', bits: 1 << 63}
			case 2: // identical
				a = g.sval(false, false)
				b = a
			default:
				a, b = g.sval(false, false), g.sval(false, false)
			}
			if g.r.Intn(2) == 0 {
				a, b = b, a
			}
			bf := []uint{2, 3, 4, 5, 16, 4096}[g.r.Intn(6)]
			in, out := &tw{}, &tw{}
			in.sval(a)
			in.sval(b)
			in.z(int64(bf))
			var la, lb uint8
			if catch(func() { la = s3db.NewKey(a.goValue()).Layer(bf); lb = s3db.NewKey(b.goValue()).Layer(bf) }) {
				out.s("P")
			} else {
				out.i(int(la))
				out.i(int(lb))
				if la != lb {
					stats["layerpair_differ"]++
				} else {
					stats["layerpair_same"]++
				}
			}
			emit("layerpair", in, out)
		}
		// --- MergeRows
		{
			nc := g.r.Intn(4)
			inv := g.r.Intn(3) == 0
			t1, t2 := g.lat(), g.lat()
			r1, r2 := g.row(nc, inv), g.row(nc, inv)
			if g.r.Intn(5) == 0 {
				r2.cols = append(r2.cols, mcol{present: true, v: g.smallVal()})
			}
			outT := t2
			if g.r.Intn(4) == 0 {
				outT = g.lat()
			}
			in, out := &tw{}, &tw{}
			in.z(t1)
			in.mrow(r1)
			in.z(t2)
			in.mrow(r2)
			in.z(outT)
			if catch(func() {
				res := s3db.MergeRows(nil, time.Unix(0, t1), r1.proto(), time.Unix(0, t2), r2.proto(), time.Unix(0, outT))
				out.absRow(outT, res)
				if res.Deleted {
					stats["merge_rows_deleted"]++
				} else {
					stats[fmt.Sprintf("merge_rows_live_%d", len(res.ColumnValues))]++
				}
			}) {
				out = &tw{}
				out.s("P")
			}
			emit("merge_rows", in, out)
		}
		// --- mergeValues
		{
			nc := g.r.Intn(4)
			inv := g.r.Intn(2) == 0
			a := mcval{md: g.lat(), has: true, row: g.row(nc, inv), prev: int64(g.r.Intn(3))}
			b := mcval{md: g.lat(), has: true, row: g.row(nc, inv), prev: int64(g.r.Intn(3))}
			if g.r.Intn(25) == 0 {
				a.tomb = g.lat()
			}
			if g.r.Intn(40) == 0 {
				b.has = false
			}
			in, out := &tw{}, &tw{}
			in.mcval(a)
			in.mcval(b)
			if catch(func() {
				res := s3db.VerifMergeValues(a.crdt(), b.crdt())
				out.cvalRow(res)
				stats["merge_values_ok"]++
			}) {
				out = &tw{}
				out.s("P")
				stats["merge_values_panic"]++
			}
			emit("merge_values", in, out)
		}
		// --- mergeValues on SQL-reachable entries (full rows stamped with the entry time) written at
		// pairwise different times, or the same entry twice: the order, the grouping and a repetition
		// of merges must not matter (checked on the implementation's own results)
		{
			nc := 1 + g.r.Intn(3)
			ts := g.r.Perm(8)
			mk := func(i int) mcval {
				return mcval{md: 1700000000000000000 + int64(ts[i])*10, has: true, row: g.row(nc, true)}
			}
			a, b, c := mk(0), mk(1), mk(2)
			if g.r.Intn(6) == 0 {
				b = a
			}
			in, out := &tw{}, &tw{}
			in.mcval(a)
			in.mcval(b)
			in.mcval(c)
			if catch(func() {
				ab := s3db.VerifMergeValues(a.crdt(), b.crdt())
				ba := s3db.VerifMergeValues(b.crdt(), a.crdt())
				abc := s3db.VerifMergeValues(s3db.VerifMergeValues(a.crdt(), b.crdt()), c.crdt())
				bc := s3db.VerifMergeValues(b.crdt(), c.crdt())
				a_bc := s3db.VerifMergeValues(a.crdt(), bc)
				aa := s3db.VerifMergeValues(a.crdt(), a.crdt())
				for _, v := range []crdt.Value{ab, ba, abc, a_bc, aa, a.crdt()} {
					out.s("/")
					out.cvalRow(v)
				}
				stats["merge_laws_ok"]++
			}) {
				out = &tw{}
				out.s("P")
				stats["merge_laws_panic"]++
			}
			emit("merge_laws", in, out)
		}
		// --- node codec: marshalProto / unmarshalProto of a mast node
		{
			nk := g.r.Intn(5)
			node := mast.Node{}
			in, out := &tw{}, &tw{}
			in.i(nk)
			for k := 0; k < nk; k++ {
				v := g.sval(false, false)
				if v.tag == 'T' && !utf8.Valid(v.bs) {
					v.tag = 'B' // protobuf refuses TEXT that is not UTF-8 (assumption of C08)
				}
				node.Key = append(node.Key, s3db.NewKey(v.goValue()))
				in.sval(v)
			}
			in.i(nk)
			for k := 0; k < nk; k++ {
				v := mcval{md: g.lat(), has: true, row: g.row(g.r.Intn(4), g.r.Intn(2) == 0), prev: int64(g.r.Intn(3))}
				if g.r.Intn(4) == 0 {
					v.tomb = g.lat()
					v.has = false
				}
				node.Value = append(node.Value, v.crdt())
				in.mcval(v)
			}
			nl := nk + 1
			if g.r.Intn(6) == 0 {
				nl = g.r.Intn(4)
			}
			in.i(nl)
			leaf := g.r.Intn(2) == 0
			for k := 0; k < nl; k++ {
				switch {
				case leaf || g.r.Intn(3) == 0:
					node.Link = append(node.Link, nil)
					in.s("-")
					stats["nodecodec_link_nil"]++
				case g.r.Intn(40) == 0:
					node.Link = append(node.Link, "") // never a real object name: the guard of the theorem
					in.bytes(nil)
					stats["nodecodec_link_emptyname"]++
				default:
					nm := []byte(fmt.Sprintf("n%d", g.r.Intn(1000)))
					node.Link = append(node.Link, string(nm))
					in.bytes(nm)
					stats["nodecodec_link_name"]++
				}
			}
			if catch(func() {
				b, err := s3db.VerifMarshalNode(node)
				if err != nil {
					out.s("E")
					return
				}
				var dec mast.Node
				if err := s3db.VerifUnmarshalNode(b, &dec); err != nil {
					out.s("E")
					return
				}
				out.i(len(dec.Key))
				for _, k := range dec.Key {
					out.sval(svalOfProto(k.(*s3db.Key).SQLiteValue))
				}
				out.i(len(dec.Value))
				for _, v := range dec.Value {
					out.cvalRow(v.(crdt.Value))
				}
				out.i(len(dec.Link))
				for _, l := range dec.Link {
					if l == nil {
						out.s("-")
					} else {
						out.bytes([]byte(l.(string)))
					}
				}
			}) {
				out = &tw{}
				out.s("P")
			}
			emit("nodecodec", in, out)
		}
		// --- node encryption framing (kv/crypto.go) against the model with the primitives'
		//     results supplied as tables: blake2b-192 digest, secretbox Seal/Open, legacy open
		if c%3 == 0 {
			var key [32]byte
			g.r.Read(key[:])
			lens := []int{0, 1, 15, 16, 17, 31, 32, 33, 47, 48, 63, 64, 65, 100, 127, 128, 129, 200}
			l := lens[g.r.Intn(len(lens))]
			if g.r.Intn(4) == 0 {
				l = g.r.Intn(300)
			}
			msg := make([]byte, l)
			g.r.Read(msg)
			// encrypt
			{
				in, out := &tw{}, &tw{}
				in.s("enc")
				in.bytes(key[:])
				in.bytes(msg)
				dig, _ := kv.VerifNonce(append(append([]byte{}, msg...), key[:]...), 24)
				var n24 [24]byte
				copy(n24[:], dig)
				in.bytes(dig)
				in.bytes(secretbox.Seal(nil, msg, &n24, &key))
				ct, err := kv.VerifEncrypt(&key, msg)
				ct2, _ := kv.VerifEncrypt(&key, msg)
				switch {
				case err != nil:
					out.s("err")
				default:
					out.s("ok")
					out.bytes(ct)
					if !bytes.Equal(ct, ct2) {
						out.s("NONDET")
					}
					if len(msg) >= 8 && bytes.Contains(ct, msg) {
						out.s("PLAINTEXT")
					}
				}
				stats["crypto_enc"]++
				emit("crypto", in, out)
			}
			// key derivation: every byte of the passphrase counts (edge white space, NUL, case)
			{
				pools := [][]byte{[]byte("pass"), []byte("pass "), []byte(" pass"), []byte("pass\n"), []byte("pass\t"), []byte("Pass"),
					[]byte("pass\x00"), {}, []byte(" "), []byte("a longer passphrase with spaces "), msg}
				master := pools[g.r.Intn(len(pools))]
				var context []byte
				if g.r.Intn(3) == 0 {
					context = []byte{byte(g.r.Intn(256)), ' '}
				}
				combined := append(append([]byte{}, context...), master...)
				e64 := []byte(base64.StdEncoding.EncodeToString(combined))
				salt, _ := kv.VerifNonce(combined, 16)
				want := argon2.IDKey(e64, salt, 1, 8, 1, 32)
				in, out := &tw{}, &tw{}
				in.s("dkey")
				in.bytes(master)
				in.bytes(context)
				in.bytes(e64)
				in.bytes(salt)
				in.bytes(want)
				out.s("ok")
				out.bytes(kv.VerifDeriveKey(master, context))
				stats["crypto_dkey"]++
				emit("crypto", in, out)
			}
			// decrypt: round trip, tampered, truncated, wrong key, legacy box
			ct, _ := kv.VerifEncrypt(&key, msg)
			kinds := []string{"RT", "TAMPER", "TRUNC", "WRONGKEY", "LEGACY"}
			kind := kinds[g.r.Intn(len(kinds))]
			dkey := key
			cc := append([]byte{}, ct...)
			switch kind {
			case "TAMPER":
				i := g.r.Intn(len(cc))
				cc[i] ^= byte(1 << uint(g.r.Intn(8)))
			case "TRUNC":
				cc = cc[:g.r.Intn(len(cc))]
			case "WRONGKEY":
				dkey[g.r.Intn(32)] ^= byte(1 << uint(g.r.Intn(8)))
			case "LEGACY":
				n := make([]byte, 24)
				g.r.Read(n)
				box, err := kv.VerifLegacySeal(msg, n, &key)
				if err != nil {
					panic(err)
				}
				cc = append(n, box...)
			}
			in, out := &tw{}, &tw{}
			in.s("dec")
			in.s(kind)
			in.bytes(msg)
			in.bytes(dkey[:])
			in.bytes(cc)
			if len(cc) >= 24 {
				var n24 [24]byte
				copy(n24[:], cc[:24])
				if m, ok := secretbox.Open(nil, cc[24:], &n24, &dkey); ok {
					in.s("S")
					in.bytes(m)
				} else {
					in.s("_")
				}
				if m, err := kv.VerifLegacyOpen(cc[24:], cc[:24], &dkey); err == nil {
					in.s("S")
					in.bytes(m)
				} else {
					in.s("_")
				}
			} else {
				in.s("_")
				in.s("_")
			}
			if catch(func() {
				m, err := kv.VerifDecrypt(&dkey, cc)
				if err != nil {
					out.s("err")
				} else {
					out.s("ok")
					out.bytes(m)
				}
			}) {
				out = &tw{}
				out.s("P")
			}
			stats["crypto_dec_"+kind]++
			emit("crypto", in, out)
		}
		// --- crdt.LastWriteWins (payload: opaque id)
		{
			mk := func() (crdt.Value, *tw) {
				v := crdt.Value{ModEpochNanos: g.lat(), PreviousRoot: prevName(int64(g.r.Intn(3)))}
				if g.r.Intn(3) == 0 {
					v.TombstoneSinceEpochNanos = g.lat()
					if g.r.Intn(8) == 0 {
						v.TombstoneSinceEpochNanos = -5
					}
				}
				w := &tw{}
				w.z(v.ModEpochNanos)
				w.z(v.TombstoneSinceEpochNanos)
				w.z(prevID(v.PreviousRoot))
				if g.r.Intn(5) > 0 {
					p := int64(g.r.Intn(4))
					v.Value = p
					w.s("S")
					w.z(p)
				} else {
					w.s("_")
				}
				return v, w
			}
			a, wa := mk()
			b, wb := mk()
			in, out := &tw{}, &tw{}
			in.sb.WriteString(wa.String())
			in.sb.WriteString(wb.String())
			res := crdt.LastWriteWins(&a, &b)
			out.z(res.ModEpochNanos)
			out.z(res.TombstoneSinceEpochNanos)
			out.z(prevID(res.PreviousRoot))
			if res.Value != nil {
				out.s("S")
				out.z(res.Value.(int64))
			} else {
				out.s("_")
			}
			if res == &a {
				stats["lww_first"]++
			} else {
				stats["lww_second"]++
			}
			emit("lww", in, out)
		}
	}
	for _, pp := range [][2]string{{"pass", "pass "}, {"pass", " pass"}, {"pass", "pass\n"}, {"pass", "Pass"}, {"pass", "pas"}, {"", " "}, {"p w", "pw"}} {
		id++
		fmt.Fprintf(cw, "%d probe different-passphrase x%x x%x\n", id, pp[0], pp[1])
		fmt.Fprintf(iw, "%d %s\n", id, probeDifferentPassphrase([]byte(pp[0]), []byte(pp[1])))
		stats["probe_different_passphrase"]++
	}
	id++
	for _, nth := range []int{0, 1, 3, 7} {
		id++
		fmt.Fprintf(cw, "%d probe stored-plaintext-after-a-failed-node-put %d\n", id, nth)
		fmt.Fprintf(iw, "%d %s\n", id, probeStoredPlaintextUnderPutFault(nth))
		stats["probe_stored_plaintext_put_fault"]++
	}
	id++
	fmt.Fprintf(cw, "%d probe version-created-at-the-cutoff-survives-history-deletion\n", id)
	fmt.Fprintf(iw, "%d %s\n", id, probeVersionCreatedAtCutoff())
	stats["probe_version_at_cutoff"]++
	id++
	fmt.Fprintf(cw, "%d probe tombstone-before-1970-hides-the-key\n", id)
	fmt.Fprintf(iw, "%d %s\n", id, probeTombstoneBefore1970())
	stats["probe_tombstone_before_1970"]++
	for k := 0; k < 3; k++ {
		id++
		fmt.Fprintf(cw, "%d probe historic-open-while-the-version-is-retired\n", id)
		fmt.Fprintf(iw, "%d %s\n", id, probeHistoricOpenDuringRetire())
		stats["probe_historic_open_during_retire"]++
	}
	for _, setBF := range []bool{false, true} {
		id++
		fmt.Fprintf(cw, "%d probe reopening-a-quiescent-table-with-force-rebranch %v\n", id, setBF)
		fmt.Fprintf(iw, "%d %s\n", id, probeQuiescentRebranch(setBF))
		stats["probe_quiescent_rebranch"]++
	}
	id++
	fmt.Fprintf(cw, "%d probe encryptor-reuse\n", id)
	fmt.Fprintf(iw, "%d %s\n", id, probeEncryptorReuse())
	id++
	fmt.Fprintf(cw, "%d probe node-object-cut-to-zero-bytes-is-reported\n", id)
	fmt.Fprintf(iw, "%d %s\n", id, probeEmptiedNode())
	id++
	fmt.Fprintf(cw, "%d probe unencrypted-prefix-is-refused\n", id)
	fmt.Fprintf(iw, "%d %s\n", id, probeUnencryptedRefused())
	for _, pass := range [][]byte{{}, nil, []byte("p"), []byte("a longer passphrase")} {
		id++
		fmt.Fprintf(cw, "%d probe stored-plaintext x%x\n", id, pass)
		fmt.Fprintf(iw, "%d %s\n", id, probeStoredPlaintext(pass))
		stats["probe_stored_plaintext"]++
	}
	sf, _ := os.Create(dir + "/stats.txt")
	defer sf.Close()
	for k, v := range stats {
		fmt.Fprintf(sf, "%s %d\n", k, v)
	}
	return nil
}
