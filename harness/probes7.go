//go:build verif

package main

// Probes added after round 7 of the seeded changes: checks on the implementation alone whose
// expected answer is "ok".

import (
	"bytes"
	"context"
	"database/sql"
	"fmt"
	"sort"
	"strings"
	"time"

	"github.com/jrhy/s3db/kv"
)

// C01 (last sentence): re-opening a quiescent table yields the same rows and stops producing new
// versions — also for a client that opens with ForceRebranch and leaves Config.BranchFactor unset
// ("keep the default"), and for one that sets it to the value the table already has.
func probeQuiescentRebranch(setBF bool) string {
	st := newFakeS3()
	cfg := kv.Config{
		Storage:    &kv.S3BucketInfo{EndpointURL: "fake", BucketName: "b", Prefix: "q"},
		KeysLike:   "key",
		ValuesLike: "value",
	}
	if setBF {
		cfg.BranchFactor = kv.DefaultBranchFactor
	}
	ctx := context.Background()
	tick := int64(1700000000)
	next := func() time.Time { tick++; return time.Unix(tick, 0) }
	w1, err := kv.Open(ctx, st, cfg, kv.OpenOptions{}, next())
	if err != nil {
		return "FAIL open: " + err.Error()
	}
	w2, err := kv.Open(ctx, st, cfg, kv.OpenOptions{}, next())
	if err != nil {
		return "FAIL open: " + err.Error()
	}
	for _, s := range []struct {
		db   *kv.DB
		k, v string
	}{{w1, "a", "a1"}, {w1, "s", "w1"}, {w2, "b", "b2"}, {w2, "s", "w2"}} {
		if err := s.db.Set(ctx, next(), s.k, s.v); err != nil {
			return "FAIL set: " + err.Error()
		}
	}
	if _, err := w1.Commit(ctx); err != nil {
		return "FAIL commit: " + err.Error()
	}
	if _, err := w2.Commit(ctx); err != nil {
		return "FAIL commit: " + err.Error()
	}
	rows := func(db *kv.DB) string {
		var sb strings.Builder
		for _, k := range []string{"a", "b", "s"} {
			var v string
			ok, err := db.Get(ctx, k, &v)
			fmt.Fprintf(&sb, "%s=%v/%s/%v ", k, ok, v, err)
		}
		return sb.String()
	}
	opts := kv.OpenOptions{ForceRebranch: true}
	r, err := kv.Open(ctx, st, cfg, opts, next())
	if err != nil {
		return "FAIL merging open: " + err.Error()
	}
	want := rows(r)
	if want != "a=true/a1/<nil> b=true/b2/<nil> s=true/w2/<nil> " {
		return "FAIL merged rows: " + want
	}
	base, err := r.Roots()
	if err != nil {
		return "FAIL roots: " + err.Error()
	}
	cur0 := st.keys("q/root/current/")
	mer0 := st.keys("q/root/merged/")
	if len(cur0) != 1 {
		return fmt.Sprintf("FAIL after the merging open %d versions are current", len(cur0))
	}
	for i := 1; i <= 3; i++ {
		st.resetLog()
		again, err := kv.Open(ctx, st, cfg, opts, next())
		if err != nil {
			return "FAIL re-open: " + err.Error()
		}
		if got := rows(again); got != want {
			return fmt.Sprintf("FAIL re-open %d of a quiescent table shows other rows: %s", i, got)
		}
		vs, _ := again.Roots()
		if fmt.Sprint(vs) != fmt.Sprint(base) {
			return fmt.Sprintf("FAIL re-open %d of a quiescent table reports another version", i)
		}
		if cur := st.keys("q/root/current/"); fmt.Sprint(cur) != fmt.Sprint(cur0) {
			return fmt.Sprintf("FAIL re-open %d of a quiescent table published a new version (%d current)", i, len(cur))
		}
		if mer := st.keys("q/root/merged/"); len(mer) != len(mer0) {
			return fmt.Sprintf("FAIL re-open %d of a quiescent table retired a version (%d superseded, were %d)", i, len(mer), len(mer0))
		}
		for _, rq := range st.takeLog() {
			if rq.kind == "P" || rq.kind == "D" {
				return fmt.Sprintf("FAIL re-open %d of a quiescent table sent %s %s", i, rq.kind, rq.key)
			}
		}
	}
	return "ok"
}

// C18: with a node encryptor, also when the store fails the first PUT of a node object with the
// error the SDK reports for a broken connection (the writer starts over when its commit fails):
// every object under node/ is a sealed box — no plaintext key or value bytes — and a reader with the
// same passphrase gets every row back.
func probeStoredPlaintextUnderPutFault(nth int) string {
	st := newFakeS3()
	pass := []byte("correct horse battery staple")
	cfg := kv.Config{
		Storage:       &kv.S3BucketInfo{EndpointURL: "fake", BucketName: "b", Prefix: "encf"},
		KeysLike:      "key",
		ValuesLike:    "value",
		BranchFactor:  4,
		NodeEncryptor: kv.V1NodeEncryptor(pass),
	}
	ctx := context.Background()
	seen, fired := 0, false
	st.plan = func(idx int, kind, key string) int {
		if kind == "P" && strings.Contains(key, "/node/") && !fired {
			if seen == nth {
				fired = true
				return fErr
			}
			seen++
		}
		return fOK
	}
	const n = 60
	tick := int64(1700000000)
	committed := false
	for attempt := 0; attempt < 3 && !committed; attempt++ {
		tick += 60
		db, err := kv.Open(ctx, st, cfg, kv.OpenOptions{}, time.Unix(tick, 0))
		if err != nil {
			return "FAIL open: " + err.Error()
		}
		for i := 0; i < n; i++ {
			tick++
			if err := db.Set(ctx, time.Unix(tick, 0), fmt.Sprintf("PLAINKEY-%04d", i), fmt.Sprintf("PLAINVALUE-%04d", i)); err != nil {
				return "FAIL set: " + err.Error()
			}
		}
		if _, err := db.Commit(ctx); err != nil {
			db.Cancel()
			continue
		}
		committed = true
	}
	if !committed {
		return "FAIL the writer could not commit after a one-shot fault"
	}
	if !fired {
		return "ok" // fewer node objects than the position aimed at
	}
	for k, v := range st.snapshot() {
		if strings.Contains(k, "/node/") && (bytes.Contains(v, []byte("PLAINKEY-")) || bytes.Contains(v, []byte("PLAINVALUE-"))) {
			return "FAIL after a failed PUT of a node object, a stored node object contains plaintext key / value bytes"
		}
	}
	st.plan = nil
	r, err := kv.Open(ctx, st, cfg, kv.OpenOptions{ReadOnly: true}, time.Unix(tick+3600, 0))
	if err != nil {
		return "FAIL after a failed PUT of a node object, a reader with the same passphrase cannot open the table: " + err.Error()
	}
	for i := 0; i < n; i++ {
		var v string
		ok, err := r.Get(ctx, fmt.Sprintf("PLAINKEY-%04d", i), &v)
		if err != nil || !ok || v != fmt.Sprintf("PLAINVALUE-%04d", i) {
			return fmt.Sprintf("FAIL after a failed PUT of a node object, a reader with the same passphrase does not get row %d back (%v %v %q)", i, ok, err, v)
		}
	}
	return "ok"
}

// C19: a CREATE VIRTUAL TABLE that is refused because another connection of the process already
// holds that table name leaves the other connection's table as it was: its by-name functions keep
// answering with its own version, before and after the refused connection tries again.
func probeRefusedCreateLeavesOtherTable() string {
	px := getProxy()
	bucket := fmt.Sprintf("prc%d", nextCounter())
	if err := px.backend.CreateBucket(bucket); err != nil {
		return "FAIL setup: " + err.Error()
	}
	name := fmt.Sprintf("prc_t%d", nextCounter())
	open := func(prefix string) (*sql.DB, error) {
		db, err := sql.Open("sqlite3", ":memory:")
		if err != nil {
			return nil, err
		}
		db.SetMaxOpenConns(1)
		_, err = db.Exec(fmt.Sprintf("create virtual table %s using s3db(s3_bucket='%s', s3_endpoint='%s', s3_prefix='%s', columns='k primary key, v')", name, bucket, px.url, prefix))
		return db, err
	}
	a, err := open("pa")
	if err != nil {
		return "FAIL create A: " + err.Error()
	}
	defer a.Close()
	if _, err := a.Exec("insert into " + name + " values(1,'one')"); err != nil {
		return "FAIL insert A: " + err.Error()
	}
	var v0 string
	if err := a.QueryRow("select s3db_version('" + name + "')").Scan(&v0); err != nil {
		return "FAIL version A: " + err.Error()
	}
	for round := 1; round <= 2; round++ {
		b, err := open("pb")
		if err == nil {
			b.Close()
			return fmt.Sprintf("FAIL attempt %d: a second connection created a table under the name another connection holds", round)
		}
		if b != nil {
			b.Close()
		}
		var v1 string
		if err := a.QueryRow("select s3db_version('" + name + "')").Scan(&v1); err != nil {
			return fmt.Sprintf("FAIL after another connection's refused CREATE (attempt %d), s3db_version of the first connection's table fails: %v", round, err)
		}
		if v1 != v0 {
			return fmt.Sprintf("FAIL after another connection's refused CREATE (attempt %d), s3db_version of the first connection's table answers %s, was %s", round, v1, v0)
		}
		if _, err := a.Exec("select s3db_refresh('" + name + "')"); err != nil {
			return fmt.Sprintf("FAIL after another connection's refused CREATE (attempt %d), s3db_refresh of the first connection's table fails: %v", round, err)
		}
		var n int
		if err := a.QueryRow("select count(*) from " + name).Scan(&n); err != nil || n != 1 {
			return fmt.Sprintf("FAIL after another connection's refused CREATE: %d rows, %v", n, err)
		}
	}
	return "ok"
}

// C14: a SELECT over a table of several levels that holds delete markers, with ONE storage read
// failing (the k-th GET of the statement, for every k): the statement fails, or returns every live
// row — never a part of them — and returns at all (the connection has a deadline).
func probeScanUnderReadFault() string {
	px := newProxy()
	bucket := "psf"
	if err := px.backend.CreateBucket(bucket); err != nil {
		return "FAIL setup: " + err.Error()
	}
	db, err := sql.Open("sqlite3", ":memory:")
	if err != nil {
		return "FAIL " + err.Error()
	}
	defer db.Close()
	db.SetMaxOpenConns(1)
	t := fmt.Sprintf("psf_t%d", nextCounter())
	if _, err := db.Exec(fmt.Sprintf("create virtual table %s using s3db(s3_bucket='%s', s3_endpoint='%s', s3_prefix='t0', entries_per_node=4, columns='k primary key, v')", t, bucket, px.url)); err != nil {
		return "FAIL create: " + err.Error()
	}
	if _, err := db.Exec("begin"); err != nil {
		return "FAIL " + err.Error()
	}
	const n = 120
	for i := 0; i < n; i++ {
		if _, err := db.Exec(fmt.Sprintf("insert into %s values(%d,%d)", t, i, i)); err != nil {
			return "FAIL insert: " + err.Error()
		}
	}
	if _, err := db.Exec("commit"); err != nil {
		return "FAIL commit: " + err.Error()
	}
	// delete markers: runs of deleted rows, so that the scan steps off markers across node boundaries
	if _, err := db.Exec(fmt.Sprintf("delete from %s where (k %% 10) in (3,4,5,6) or k between 30 and 47", t)); err != nil {
		return "FAIL delete: " + err.Error()
	}
	var want []int
	for i := 0; i < n; i++ {
		if m := i % 10; (m >= 3 && m <= 6) || (i >= 30 && i <= 47) {
			continue
		}
		want = append(want, i)
	}
	scan := func() ([]int, error) {
		rows, err := db.Query("select k from " + t)
		if err != nil {
			return nil, err
		}
		defer rows.Close()
		var got []int
		for rows.Next() {
			var k int
			if err := rows.Scan(&k); err != nil {
				return got, err
			}
			got = append(got, k)
		}
		return got, rows.Err()
	}
	// count the GETs of an undisturbed scan on a fresh connection state (no node cache by default)
	px.takeLog()
	got, err := scan()
	if err != nil || fmt.Sprint(got) != fmt.Sprint(want) {
		return fmt.Sprintf("FAIL undisturbed scan: %d rows (%d expected), %v", len(got), len(want), err)
	}
	gets := 0
	for _, r := range px.takeLog() {
		if r.kind == "G" {
			gets++
		}
	}
	if gets < 5 {
		return fmt.Sprintf("FAIL probe: the scan read only %d objects", gets)
	}
	if _, err := db.Exec("update s3db_conn set deadline = datetime('now', '+20 seconds')"); err != nil {
		return "FAIL deadline: " + err.Error()
	}
	for k := 0; k < gets; k++ {
		seen := 0
		px.mu.Lock()
		px.plan = func(idx int, kind, key string) int {
			if kind == "G" {
				seen++
				if seen == k+1 {
					return fErr
				}
			}
			return fOK
		}
		px.mu.Unlock()
		done := make(chan struct{})
		var g []int
		var e error
		go func() { g, e = scan(); close(done) }()
		select {
		case <-done:
		case <-time.After(15 * time.Second):
			px.mu.Lock()
			px.plan = nil
			px.mu.Unlock()
			return fmt.Sprintf("FAIL a SELECT whose read #%d of %d failed once has not returned after 15 s", k+1, gets)
		}
		px.mu.Lock()
		px.plan = nil
		px.mu.Unlock()
		if e == nil && fmt.Sprint(g) != fmt.Sprint(want) {
			miss := []int{}
			have := map[int]bool{}
			for _, x := range g {
				have[x] = true
			}
			for _, x := range want {
				if !have[x] {
					miss = append(miss, x)
				}
			}
			sort.Ints(miss)
			if len(miss) > 6 {
				miss = miss[:6]
			}
			return fmt.Sprintf("FAIL a SELECT whose read #%d of %d failed reported success with %d of %d rows (missing keys %v ...)", k+1, gets, len(g), len(want), miss)
		}
	}
	return "ok"
}

// C13: every spelling of the readonly option gives a table that never writes: a CREATE with
// readonly=<value> over two unmerged versions sends no PUT / DELETE, and writes are refused.
func probeReadonlySpellings() string {
	px := newProxy()
	bucket := "pro"
	if err := px.backend.CreateBucket(bucket); err != nil {
		return "FAIL setup: " + err.Error()
	}
	mk := func(extra string) (*sql.DB, string, error) {
		db, err := sql.Open("sqlite3", ":memory:")
		if err != nil {
			return nil, "", err
		}
		db.SetMaxOpenConns(1)
		t := fmt.Sprintf("pro_t%d", nextCounter())
		_, err = db.Exec(fmt.Sprintf("create virtual table %s using s3db(s3_bucket='%s', s3_endpoint='%s', s3_prefix='t0', columns='k primary key, v'%s)", t, bucket, px.url, extra))
		return db, t, err
	}
	// two writers that have not merged each other: a read-write open would publish a merge
	a, ta, err := mk("")
	if err != nil {
		return "FAIL create A: " + err.Error()
	}
	defer a.Close()
	b, tb, err := mk("")
	if err != nil {
		return "FAIL create B: " + err.Error()
	}
	defer b.Close()
	if _, err := a.Exec("insert into " + ta + " values(1,'a')"); err != nil {
		return "FAIL insert A: " + err.Error()
	}
	if _, err := b.Exec("insert into " + tb + " values(2,'b')"); err != nil {
		return "FAIL insert B: " + err.Error()
	}
	for _, sp := range []string{", readonly", ", readonly=1", ", readonly=true", ", readonly=yes", ", readonly='on'", ", readonly=TRUE"} {
		px.takeLog()
		r, tr, err := mk(sp)
		if err != nil {
			// a spelling may be refused; it must not give a writable table
			if r != nil {
				r.Close()
			}
			continue
		}
		var n int
		qerr := r.QueryRow("select count(*) from " + tr).Scan(&n)
		_, werr := r.Exec("insert into " + tr + " values(9,'x')")
		_, uerr := r.Exec("update " + tr + " set v='y' where k=1")
		_, derr := r.Exec("delete from " + tr + " where k=2")
		var n2 int
		r.QueryRow("select count(*) from " + tr).Scan(&n2)
		r.Close()
		for _, rq := range px.takeLog() {
			if rq.kind == "P" || rq.kind == "D" {
				return fmt.Sprintf("FAIL a table created with%s sent %s %s", sp, rq.kind, rq.key)
			}
		}
		if qerr != nil || n != 2 {
			return fmt.Sprintf("FAIL a table created with%s reads %d rows, %v", sp, n, qerr)
		}
		if werr == nil || uerr == nil || derr == nil || n2 != 2 {
			return fmt.Sprintf("FAIL a table created with%s accepted a write (insert: %v, update: %v, delete: %v; %d rows afterwards)", sp, werr, uerr, derr, n2)
		}
	}
	return "ok"
}
