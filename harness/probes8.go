//go:build verif

package main

// Probes for defects of the unchanged tree that sub-agents of round 7 remarked on (each was first
// reproduced by its probe, then repaired in /repo by one `fix:` commit).

import (
	"context"
	"database/sql"
	"fmt"
	"runtime"
	"strings"
	"sync"
	"time"

	"github.com/jrhy/s3db/kv"
)

// C11: opening a table restricted to a recorded version succeeds while that version exists — also
// when another client's commit retires it (PUT merged/, DELETE current/) between the opener's two
// lookups.  The opener is parked after its first request for the version; the writer commits.
func probeHistoricOpenDuringRetire() string {
	st := newFakeS3()
	cfg := kv.Config{
		Storage:    &kv.S3BucketInfo{EndpointURL: "fake", BucketName: "b", Prefix: "h"},
		KeysLike:   "key",
		ValuesLike: "value",
	}
	ctx := context.Background()
	w, err := kv.Open(ctx, st, cfg, kv.OpenOptions{}, time.Unix(1700000000, 0))
	if err != nil {
		return "FAIL open: " + err.Error()
	}
	if err := w.Set(ctx, time.Unix(1700000001, 0), "a", "one"); err != nil {
		return "FAIL set: " + err.Error()
	}
	if _, err := w.Commit(ctx); err != nil {
		return "FAIL commit: " + err.Error()
	}
	vs, err := w.Roots()
	if err != nil || len(vs) != 1 {
		return fmt.Sprintf("FAIL roots: %v %v", vs, err)
	}
	v1 := vs[0]
	defer w.Cancel() // (the second write stays uncommitted when the opener never has to look twice)
	if err := w.Set(ctx, time.Unix(1700000002, 0), "b", "two"); err != nil {
		return "FAIL set: " + err.Error()
	}
	// park the historic opener at its SECOND request that names v1 (the first has been answered)
	var mu sync.Mutex
	seen := 0
	parked := make(chan struct{})
	release := make(chan struct{})
	readerG := make(chan int64, 1)
	st.gate = func(kind, key string) {
		if kind != "G" || !strings.HasSuffix(key, v1) {
			return
		}
		select {
		case id := <-readerG:
			readerG <- id
			if id != goid() {
				return
			}
		default:
			return
		}
		mu.Lock()
		seen++
		n := seen
		mu.Unlock()
		if n == 2 {
			close(parked)
			<-release
		}
	}
	type res struct {
		v   string
		ok  bool
		err error
	}
	done := make(chan res, 1)
	go func() {
		readerG <- goid()
		r, err := kv.Open(ctx, st, cfg, kv.OpenOptions{ReadOnly: true, OnlyVersions: []string{v1}}, time.Unix(1700000003, 0))
		if err != nil {
			done <- res{err: err}
			return
		}
		var v string
		ok, err := r.Get(ctx, "a", &v)
		done <- res{v, ok, err}
	}()
	select {
	case <-parked:
		// the version was not where the opener looked first: now the writer's commit moves it
		if _, err := w.Commit(ctx); err != nil {
			close(release)
			return "FAIL second commit: " + err.Error()
		}
		close(release)
	case r := <-done:
		// answered by its first lookup: nothing to race with
		st.gate = nil
		if r.err != nil || !r.ok || r.v != "one" {
			return fmt.Sprintf("FAIL undisturbed historic open: %v %v %q", r.ok, r.err, r.v)
		}
		return "ok"
	case <-time.After(10 * time.Second):
		return "FAIL probe: the historic open neither finished nor asked twice for its version"
	}
	r := <-done
	st.gate = nil
	if r.err != nil {
		return "FAIL an open restricted to a version that exists (its retirement by another client's commit fell between the opener's two lookups) fails: " + r.err.Error()
	}
	if !r.ok || r.v != "one" {
		return fmt.Sprintf("FAIL an open restricted to a version retired meanwhile reads %v %q", r.ok, r.v)
	}
	return "ok"
}

func goid() int64 {
	var buf [64]byte
	n := runtime.Stack(buf[:], false)
	var id int64
	fmt.Sscanf(string(buf[:n]), "goroutine %d ", &id)
	return id
}

// C05: s3db_refresh / s3db_vacuum inside a transaction that has written to the table: afterwards
// COMMIT publishes all of the transaction's writes (a fresh connection reads them), ROLLBACK none
// (a fresh connection reads none of them) — or the function is refused and the transaction is intact.
func probeFunctionInsideTransaction(fn string, commit bool) string {
	px := newProxy()
	bucket := "pft"
	if err := px.backend.CreateBucket(bucket); err != nil {
		return "FAIL setup: " + err.Error()
	}
	open := func() (*sql.DB, string, error) {
		db, err := sql.Open("sqlite3", ":memory:")
		if err != nil {
			return nil, "", err
		}
		db.SetMaxOpenConns(1)
		t := fmt.Sprintf("pft_t%d", nextCounter())
		_, err = db.Exec(fmt.Sprintf("create virtual table %s using s3db(s3_bucket='%s', s3_endpoint='%s', s3_prefix='t0', columns='k primary key, v')", t, bucket, px.url))
		return db, t, err
	}
	a, ta, err := open()
	if err != nil {
		return "FAIL create: " + err.Error()
	}
	defer a.Close()
	if _, err := a.Exec("insert into " + ta + " values(1,'before')"); err != nil {
		return "FAIL insert: " + err.Error()
	}
	if _, err := a.Exec("begin"); err != nil {
		return "FAIL begin: " + err.Error()
	}
	if _, err := a.Exec("insert into " + ta + " values(2,'inside')"); err != nil {
		return "FAIL insert inside: " + err.Error()
	}
	var ferr error
	if fn == "refresh" {
		_, ferr = a.Exec("select s3db_refresh('" + ta + "')")
	} else {
		var verr sql.NullString
		ferr = a.QueryRow("select vacuum_error from s3db_vacuum(?, ?)", ta, "2000-01-01 00:00:00").Scan(&verr)
		if ferr == nil && verr.Valid && verr.String != "" {
			ferr = fmt.Errorf("%s", verr.String)
		}
	}
	var inside int
	if err := a.QueryRow("select count(*) from " + ta).Scan(&inside); err != nil {
		return fmt.Sprintf("FAIL after s3db_%s inside a transaction (refused: %v) the table cannot be read: %v", fn, ferr != nil, err)
	}
	if inside != 2 {
		return fmt.Sprintf("FAIL after s3db_%s inside a transaction (refused: %v) the connection sees %d rows, not its own 2", fn, ferr != nil, inside)
	}
	end := "rollback"
	want := 1
	if commit {
		end, want = "commit", 2
	}
	if _, err := a.Exec(end); err != nil {
		return fmt.Sprintf("FAIL %s after s3db_%s inside the transaction: %v", end, fn, err)
	}
	var mine int
	if err := a.QueryRow("select count(*) from " + ta).Scan(&mine); err != nil || mine != want {
		return fmt.Sprintf("FAIL after s3db_%s inside a transaction and %s the connection sees %d rows (%d expected), %v", fn, end, mine, want, err)
	}
	runtime.GC() // an abandoned dirty tree's finalizer panics the process
	runtime.GC()
	b, tb, err := open()
	if err != nil {
		return "FAIL fresh connection: " + err.Error()
	}
	defer b.Close()
	var n int
	if err := b.QueryRow("select count(*) from " + tb).Scan(&n); err != nil || n != want {
		return fmt.Sprintf("FAIL after s3db_%s inside a transaction (refused: %v) and %s, a fresh connection reads %d rows (%d expected), %v", fn, ferr != nil, end, n, want, err)
	}
	return "ok"
}

// C13 / C05: a write statement that matches no row of a read-only table leaves the table usable:
// later statements on the connection are answered (writes refused as read-only, reads served).
func probeReadonlyAfterEmptyWrite() string {
	px := newProxy()
	bucket := "prw"
	if err := px.backend.CreateBucket(bucket); err != nil {
		return "FAIL setup: " + err.Error()
	}
	mk := func(extra string) (*sql.DB, string, error) {
		db, err := sql.Open("sqlite3", ":memory:")
		if err != nil {
			return nil, "", err
		}
		db.SetMaxOpenConns(1)
		t := fmt.Sprintf("prw_t%d", nextCounter())
		_, err = db.Exec(fmt.Sprintf("create virtual table %s using s3db(s3_bucket='%s', s3_endpoint='%s', s3_prefix='t0', columns='k primary key, v'%s)", t, bucket, px.url, extra))
		return db, t, err
	}
	a, ta, err := mk("")
	if err != nil {
		return "FAIL create: " + err.Error()
	}
	defer a.Close()
	if _, err := a.Exec("insert into " + ta + " values(1,'a')"); err != nil {
		return "FAIL insert: " + err.Error()
	}
	r, tr, err := mk(", readonly")
	if err != nil {
		return "FAIL create readonly: " + err.Error()
	}
	defer r.Close()
	px.takeLog()
	for i, s := range []string{"delete from @ where k=12345", "update @ set v='x' where k=777", "delete from @ where k=54321"} {
		if _, err := r.Exec(strings.ReplaceAll(s, "@", tr)); err != nil && strings.Contains(err.Error(), "already in progress") {
			return fmt.Sprintf("FAIL statement %d on a read-only table (a write that matches no row) fails with %q: an earlier such statement left its transaction open", i+1, err.Error())
		}
	}
	_, werr := r.Exec("insert into " + tr + " values(9,'x')")
	if werr == nil {
		return "FAIL a read-only table accepted an INSERT"
	}
	if strings.Contains(werr.Error(), "already in progress") {
		return "FAIL after a write that matched no row, an INSERT into the read-only table fails with \"" + werr.Error() + "\" (not as a refused write)"
	}
	var n int
	if err := r.QueryRow("select count(*) from " + tr).Scan(&n); err != nil || n != 1 {
		return fmt.Sprintf("FAIL read-only table reads %d rows, %v", n, err)
	}
	for _, rq := range px.takeLog() {
		if rq.kind == "P" || rq.kind == "D" {
			return "FAIL the read-only table sent " + rq.kind + " " + rq.key
		}
	}
	return "ok"
}

// C17: a tombstone makes the key absent whatever its time — also a time before 1970 (negative
// nanoseconds since the epoch): Get, IsTombstoned and a merging reader agree.
func probeTombstoneBefore1970() string {
	st := newFakeS3()
	cfg := kv.Config{
		Storage:    &kv.S3BucketInfo{EndpointURL: "fake", BucketName: "b", Prefix: "tb"},
		KeysLike:   "key",
		ValuesLike: "value",
	}
	ctx := context.Background()
	t := func(year int) time.Time { return time.Date(year, 1, 1, 0, 0, 0, 0, time.UTC) }
	db, err := kv.Open(ctx, st, cfg, kv.OpenOptions{}, t(1959))
	if err != nil {
		return "FAIL open: " + err.Error()
	}
	defer db.Cancel()
	if err := db.Set(ctx, t(1960), "k", "old"); err != nil {
		return "FAIL set: " + err.Error()
	}
	if err := db.Tombstone(ctx, t(1965), "k"); err != nil {
		return "FAIL tombstone: " + err.Error()
	}
	check := func(who string, d *kv.DB) string {
		var v string
		var ok bool
		var gerr error
		if catch(func() { ok, gerr = d.Get(ctx, "k", &v) }) {
			return "FAIL " + who + ": Get of a key tombstoned at a time before 1970 panics"
		}
		if gerr != nil {
			return "FAIL " + who + ": Get: " + gerr.Error()
		}
		if ok {
			return fmt.Sprintf("FAIL %s: a key tombstoned at a time before 1970 is present (value %q)", who, v)
		}
		ts, err := d.IsTombstoned(ctx, "k")
		if err != nil || !ts {
			return fmt.Sprintf("FAIL %s: IsTombstoned = %v, %v", who, ts, err)
		}
		return ""
	}
	if r := check("writer", db); r != "" {
		return r
	}
	if _, err := db.Commit(ctx); err != nil {
		return "FAIL commit: " + err.Error()
	}
	rd, err := kv.Open(ctx, st, cfg, kv.OpenOptions{ReadOnly: true}, t(1970))
	if err != nil {
		return "FAIL reader: " + err.Error()
	}
	if r := check("reader", rd); r != "" {
		return r
	}
	return "ok"
}
