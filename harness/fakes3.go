//go:build verif

package main

// In-process object store implementing kv.S3Interface, with a request log, a fault plan,
// a crash cut and snapshots. No network, no SDK retries.

import (
	"bytes"
	"errors"
	"io"
	"sort"
	"strings"
	"sync"

	"github.com/aws/aws-sdk-go/aws"
	"github.com/aws/aws-sdk-go/aws/awserr"
	"github.com/aws/aws-sdk-go/aws/request"
	"github.com/aws/aws-sdk-go/service/s3"
)

type reqRec struct {
	kind string // L G P D
	key  string
	ok   bool
	val  []byte // body of a PUT
}

const (
	fOK = iota
	fErr
	fGone
	fStall
)

type fakeS3 struct {
	pageSize int // > 0: listings are truncated after this many keys (continuation tokens)
	mu    sync.Mutex
	objs  map[string][]byte
	log   []reqRec
	plan  func(idx int, kind, key string) int
	idx   int
	muts  int
	crash int // -1: none; otherwise mutations allowed before the process "dies"
	dead  bool
	gate  func(kind, key string) // scheduler hook, called before the request is applied
}

// (listings are truncated after two keys: every listing of three or more versions takes several
//  pages; single-page listings are what the SQL level sees through gofakes3)
func newFakeS3() *fakeS3 { return &fakeS3{objs: map[string][]byte{}, crash: -1, pageSize: 2} }

func (f *fakeS3) snapshot() map[string][]byte {
	f.mu.Lock()
	defer f.mu.Unlock()
	m := make(map[string][]byte, len(f.objs))
	for k, v := range f.objs {
		m[k] = v
	}
	return m
}

func fromSnapshot(m map[string][]byte) *fakeS3 {
	f := newFakeS3()
	for k, v := range m {
		f.objs[k] = v
	}
	return f
}

func (f *fakeS3) resetLog() { f.mu.Lock(); f.log = nil; f.mu.Unlock() }
func (f *fakeS3) takeLog() []reqRec {
	f.mu.Lock()
	defer f.mu.Unlock()
	l := f.log
	f.log = nil
	return l
}

var errInjected = awserr.New("RequestError", "send request failed", errors.New("injected transport error"))
var errDead = awserr.New("RequestError", "send request failed", errors.New("process crashed"))

func noSuchKey() error {
	return awserr.New(s3.ErrCodeNoSuchKey, "The specified key does not exist.", nil)
}

// pre: returns (proceed, err)
func (f *fakeS3) pre(ctx aws.Context, kind, key string, mut bool) error {
	if f.gate != nil {
		f.gate(kind, key)
	}
	if ctx != nil {
		if err := ctx.Err(); err != nil {
			f.mu.Lock()
			f.log = append(f.log, reqRec{kind: kind, key: key, ok: false})
			f.mu.Unlock()
			return awserr.New(request.CanceledErrorCode, "request context canceled", err)
		}
	}
	f.mu.Lock()
	defer f.mu.Unlock()
	if f.dead {
		return errDead
	}
	if mut && f.crash >= 0 && f.muts >= f.crash {
		f.dead = true
		return errDead
	}
	i := f.idx
	f.idx++
	if f.plan != nil {
		switch f.plan(i, kind, key) {
		case fErr:
			f.log = append(f.log, reqRec{kind: kind, key: key, ok: false})
			return errInjected
		case fGone:
			f.log = append(f.log, reqRec{kind: kind, key: key, ok: false})
			return noSuchKey()
		}
	}
	if mut {
		f.muts++
	}
	f.log = append(f.log, reqRec{kind: kind, key: key, ok: true})
	return nil
}

func (f *fakeS3) DeleteObjectWithContext(ctx aws.Context, in *s3.DeleteObjectInput, _ ...request.Option) (*s3.DeleteObjectOutput, error) {
	if err := f.pre(ctx, "D", *in.Key, true); err != nil {
		return nil, err
	}
	f.mu.Lock()
	delete(f.objs, *in.Key)
	f.mu.Unlock()
	return &s3.DeleteObjectOutput{}, nil
}

func (f *fakeS3) GetObjectWithContext(ctx aws.Context, in *s3.GetObjectInput, _ ...request.Option) (*s3.GetObjectOutput, error) {
	if err := f.pre(ctx, "G", *in.Key, false); err != nil {
		return nil, err
	}
	f.mu.Lock()
	b, ok := f.objs[*in.Key]
	f.mu.Unlock()
	if !ok {
		return nil, noSuchKey()
	}
	return &s3.GetObjectOutput{Body: io.NopCloser(bytes.NewReader(b)), ContentLength: aws.Int64(int64(len(b)))}, nil
}

func (f *fakeS3) ListObjectsV2WithContext(ctx aws.Context, in *s3.ListObjectsV2Input, _ ...request.Option) (*s3.ListObjectsV2Output, error) {
	// a listing is one request for the fault plan, the request log and the schedulers, however many
	// pages it takes: the continuation pages (a store may truncate a listing after any number of
	// keys) are answered without further bookkeeping
	if in.ContinuationToken == nil {
		if err := f.pre(ctx, "L", *in.Prefix, false); err != nil {
			return nil, err
		}
	}
	f.mu.Lock()
	var keys []string
	for k := range f.objs {
		if strings.HasPrefix(k, *in.Prefix) && (in.ContinuationToken == nil || k > *in.ContinuationToken) {
			keys = append(keys, k)
		}
	}
	f.mu.Unlock()
	sort.Strings(keys)
	out := &s3.ListObjectsV2Output{IsTruncated: aws.Bool(false)}
	if f.pageSize > 0 && len(keys) > f.pageSize {
		keys = keys[:f.pageSize]
		out.IsTruncated = aws.Bool(true)
		out.NextContinuationToken = aws.String(keys[len(keys)-1])
	}
	for _, k := range keys {
		k := k
		out.Contents = append(out.Contents, &s3.Object{Key: &k})
	}
	return out, nil
}

func (f *fakeS3) PutObjectWithContext(ctx aws.Context, in *s3.PutObjectInput, _ ...request.Option) (*s3.PutObjectOutput, error) {
	b, err := io.ReadAll(in.Body)
	if err != nil {
		return nil, err
	}
	if err := f.pre(ctx, "P", *in.Key, true); err != nil {
		return nil, err
	}
	f.mu.Lock()
	f.objs[*in.Key] = b
	if n := len(f.log); n > 0 && f.log[n-1].kind == "P" && f.log[n-1].key == *in.Key {
		f.log[n-1].val = b
	}
	f.mu.Unlock()
	return &s3.PutObjectOutput{}, nil
}

func (f *fakeS3) keys(prefix string) []string {
	f.mu.Lock()
	defer f.mu.Unlock()
	var keys []string
	for k := range f.objs {
		if strings.HasPrefix(k, prefix) {
			keys = append(keys, strings.TrimPrefix(k, prefix))
		}
	}
	sort.Strings(keys)
	return keys
}
