//go:build verif

package main

// L2: SQL statements through real SQLite (mattn/go-sqlite3 + riyazali bridge + the s3db
// extension) against a gofakes3 server behind a logging / fault-injecting HTTP proxy, side by
// side with a native WITHOUT ROWID table in the same connection.

import (
	"bufio"
	"database/sql"
	"encoding/json"
	"fmt"
	"io"
	"math"
	"math/rand"
	"net/http"
	"net/http/httptest"
	"os"
	"sort"
	"strconv"
	"strings"
	"sync"
	"time"
	"unicode/utf8"

	"github.com/aws/aws-sdk-go/aws"
	"github.com/johannesboyne/gofakes3"
	"github.com/johannesboyne/gofakes3/backend/s3mem"
	"github.com/jrhy/mast"
	"github.com/jrhy/s3db"
	_ "github.com/jrhy/s3db/sqlite"
	_ "github.com/jrhy/s3db/sqlite/sqlite-autoload-extension"
	sqlite3 "github.com/mattn/go-sqlite3"
)

// ---------------------------------------------------------------- S3 proxy
type s3proxy struct {
	mu      sync.Mutex
	inner   http.Handler
	backend gofakes3.Backend
	log     []reqRec
	plan    func(idx int, kind, key string) int
	idx     int
	url     string
	hold    chan struct{} // when set: every request waits until it is closed (a stalled endpoint)
	stall   time.Duration // how long a request answered fStall waits (or until the client gives up)
}

func (p *s3proxy) ServeHTTP(w http.ResponseWriter, r *http.Request) {
	if p.hold != nil {
		<-p.hold
	}
	kind := "?"
	path := strings.TrimPrefix(r.URL.Path, "/")
	parts := strings.SplitN(path, "/", 2)
	key := ""
	if len(parts) == 2 {
		key = parts[1]
	}
	switch r.Method {
	case "GET", "HEAD":
		if key == "" {
			kind = "L"
			key = r.URL.Query().Get("prefix")
		} else {
			kind = "G"
		}
	case "PUT":
		if key != "" {
			kind = "P"
		}
	case "DELETE":
		kind = "D"
	}
	p.mu.Lock()
	i := p.idx
	p.idx++
	act := fOK
	if p.plan != nil && kind != "?" {
		act = p.plan(i, kind, key)
	}
	p.log = append(p.log, reqRec{kind: kind, key: key, ok: act == fOK})
	p.mu.Unlock()
	switch act {
	case fStall:
		// the store goes silent on this request: it is answered after p.stall, unless the client
		// has given up before
		select {
		case <-time.After(p.stall):
		case <-r.Context().Done():
			return
		}
	case fErr:
		w.Header().Set("Content-Type", "application/xml")
		w.WriteHeader(http.StatusForbidden)
		fmt.Fprint(w, `<?xml version="1.0" encoding="UTF-8"?><Error><Code>AccessDenied</Code><Message>injected fault</Message></Error>`)
		return
	case fGone:
		w.Header().Set("Content-Type", "application/xml")
		w.WriteHeader(http.StatusNotFound)
		fmt.Fprint(w, `<?xml version="1.0" encoding="UTF-8"?><Error><Code>NoSuchKey</Code><Message>The specified key does not exist.</Message></Error>`)
		return
	}
	p.inner.ServeHTTP(w, r)
}

func (p *s3proxy) takeLog() []reqRec {
	p.mu.Lock()
	defer p.mu.Unlock()
	l := p.log
	p.log = nil
	return l
}

var (
	proxyOnce sync.Once
	theProxy  *s3proxy
)

// perWorldProxy: every world gets its own gofakes3 server and request log (threaded level)
var perWorldProxy bool
var l2mu sync.Mutex

func newProxy() *s3proxy {
	backend := s3mem.New()
	faker := gofakes3.New(backend)
	p := &s3proxy{inner: faker.Server(), backend: backend}
	ts := httptest.NewServer(p)
	p.url = ts.URL
	return p
}

func nextCounter() int {
	l2mu.Lock()
	defer l2mu.Unlock()
	l2counter++
	return l2counter
}

func getProxy() *s3proxy {
	if perWorldProxy {
		return newProxy()
	}
	proxyOnce.Do(func() {
		backend := s3mem.New()
		faker := gofakes3.New(backend)
		theProxy = &s3proxy{inner: faker.Server(), backend: backend}
		ts := httptest.NewServer(theProxy)
		theProxy.url = ts.URL
	})
	return theProxy
}

// ---------------------------------------------------------------- world
var l2counter int

type l2conn struct {
	db      *sql.DB
	table   string // s3db table name ("" = none)
	native  string
	ro      bool
	intx    bool
	created bool
}

type l2world struct {
	px       *s3proxy
	bucket   string
	prefix   string
	ncols    int
	epn      int
	cache    int
	keyType  string
	conns    map[int]*l2conn
	nm       *namer
	in, out  *tw
	ops      *tw
	nops     int
	native   bool // maintain a native twin table per connection
	writes   []pastWrite
	curWT    map[int]int64
	versions [][]string // canonical version lists returned by s3db_version so far
	roMuts   int
	lastMuts int
	fltFired, lastFailed bool // storage-fault bookkeeping of the current statement
	cacheMixed           bool // connections with an odd index get no node cache
	twinKeys bool // the history holds numerically equal INTEGER and REAL keys (finding F-C07-2: their layers differ)
	keyPos   int  // position of the key column in the declared column list (derived from the case header)
	dead     bool // a Go panic crossed the cgo boundary: SQLite's mutex is held, the process state is unusable
}

func newL2World(ncols, epn, cache int, native bool) *l2world {
	px := getProxy()
	w := &l2world{px: px, bucket: fmt.Sprintf("b%d", nextCounter()), prefix: "pfx", ncols: ncols, epn: epn, cache: cache,
		conns: map[int]*l2conn{}, curWT: map[int]int64{}, nm: newNamer("#"), in: &tw{}, out: &tw{}, ops: &tw{}, native: native}
	// the key column is not always declared first: its position is a function of the case header, so
	// that recorded histories replay with the same declaration
	w.keyPos = (ncols + epn + cache/64) % (ncols + 1)
	if err := px.backend.CreateBucket(w.bucket); err != nil {
		panic(err)
	}
	return w
}

func (w *l2world) close() {
	if w.dead {
		return // leak the connections: closing would dead-lock on SQLite's mutex
	}
	for _, c := range w.conns {
		if c.db != nil {
			c.db.Close()
		}
	}
	// the tables' S3 clients keep idle connections to the proxy alive: over a thousand worlds they
	// exhaust the process's file descriptors
	if t, ok := http.DefaultTransport.(*http.Transport); ok {
		t.CloseIdleConnections()
	}
}

// the key column is declared at position keyPos of the column list (statements name their columns)
func (w *l2world) colDecl() string {
	var cols []string
	for i := 0; i < w.ncols; i++ {
		cols = append(cols, fmt.Sprintf("c%d", i))
	}
	p := w.keyPos
	if p > len(cols) {
		p = len(cols)
	}
	cols = append(cols[:p], append([]string{"k primary key"}, cols[p:]...)...)
	return strings.Join(cols, ", ")
}

func (w *l2world) colList() string {
	s := "k"
	for i := 0; i < w.ncols; i++ {
		s += fmt.Sprintf(", c%d", i)
	}
	return s
}

func l2class(prefix, key string) (string, string) {
	p := prefix + "/s3db-rows"
	switch {
	case strings.HasPrefix(key, p+"/root/current/"):
		return "c", strings.TrimPrefix(key, p+"/root/current/")
	case strings.HasPrefix(key, p+"/root/merged/"):
		return "m", strings.TrimPrefix(key, p+"/root/merged/")
	case strings.HasPrefix(key, p+"/node/"):
		return "n", strings.TrimPrefix(key, p+"/node/")
	}
	return "?", key
}

// version-level mutation tokens + observed merge/retire orders of the op just executed
func (w *l2world) muts(out *tw) (getOrder, retire []string, nmut int) {
	return w.mutsG(out, "[", "]")
}

func (w *l2world) mutsG(out *tw, opn, cls string) (getOrder, retire []string, nmut int) {
	log := w.px.takeLog()
	seen := map[string]bool{}
	out.s("M")
	out.s(opn)
	for _, r := range log {
		cl, name := l2class(w.prefix, r.key)
		if r.kind == "G" && (cl == "c" || cl == "m") && !seen[name] {
			seen[name] = true
			getOrder = append(getOrder, name)
		}
		if !r.ok || (r.kind != "P" && r.kind != "D") {
			continue
		}
		nmut++
		w.lastMuts++
		if cl == "n" {
			continue // node-level requests are not compared at this level
		}
		if r.kind == "P" && cl == "m" {
			retire = append(retire, name)
		}
		out.s(r.kind + cl + w.nm.nm(name))
	}
	out.s(cls)
	return
}

func (w *l2world) canonNames(out *tw, l []string) {
	out.i(len(l))
	for _, n := range l {
		out.s(n)
	}
}

func (w *l2world) names(out *tw, l []string) {
	out.i(len(l))
	for _, n := range l {
		out.s(w.nm.nm(n))
	}
}

func sqlLit(v sval) string {
	switch v.tag {
	case 'N':
		return "NULL"
	case 'I':
		return strconv.FormatInt(v.i, 10)
	case 'R':
		f := math.Float64frombits(v.bits)
		if math.IsInf(f, 1) {
			return "9e999"
		}
		if math.IsInf(f, -1) {
			return "-9e999"
		}
		s := strconv.FormatFloat(f, 'g', 17, 64)
		if !strings.ContainsAny(s, ".eE") {
			s += ".0"
		}
		return s
	case 'T':
		return "CAST(x'" + fmt.Sprintf("%x", v.bs) + "' AS TEXT)"
	case 'B':
		return "x'" + fmt.Sprintf("%x", v.bs) + "'"
	}
	return "NULL"
}

var errSeen = map[string]int{}

func classifyErr(err error) string {
	if err == nil {
		return "ok"
	}
	if se, ok := err.(sqlite3.Error); ok {
		switch se.ExtendedCode {
		case sqlite3.ErrConstraintPrimaryKey, sqlite3.ErrConstraintUnique:
			return "pk"
		case sqlite3.ErrConstraintNotNull:
			return "notnull"
		}
	}
	s := err.Error()
	l2mu.Lock()
	if len(s) > 80 {
		errSeen[s[:80]]++
	} else {
		errSeen[s]++
	}
	l2mu.Unlock()
	switch {
	case strings.Contains(s, "constraint: key not unique"), strings.Contains(s, "UNIQUE constraint failed"), strings.Contains(s, "PRIMARY KEY"):
		return "pk"
	case strings.Contains(s, "NOT NULL"):
		return "notnull"
	}
	return "err"
}

func scanRows(rows *sql.Rows) ([][]sval, error) {
	defer rows.Close()
	cols, err := rows.Columns()
	if err != nil {
		return nil, err
	}
	var res [][]sval
	for rows.Next() {
		vals := make([]interface{}, len(cols))
		ptrs := make([]interface{}, len(cols))
		for i := range vals {
			ptrs[i] = &vals[i]
		}
		if err := rows.Scan(ptrs...); err != nil {
			return nil, err
		}
		r := make([]sval, len(cols))
		for i, v := range vals {
			r[i] = svalOfGo(v)
		}
		res = append(res, r)
	}
	return res, rows.Err()
}

func (w *l2world) rowsOut(out *tw, rows [][]sval) {
	out.i(len(rows))
	for _, r := range rows {
		for _, v := range r {
			out.sval(v)
		}
	}
}

type pastWrite struct {
	op *sop
	t  int64
}

type sop struct {
	kind   string
	c      int
	ro     bool
	t      int64 // seconds; 0 = clear
	key    sval
	vals   []sval
	mask   []bool
	desc   bool
	cons   []scon
	limit  int
	nofault bool // (scripts added later: no draw from the main stream, no injected fault)
	before int64
	from   []string // canonical version names for changes
	to     []string
	flt    *l2fault
	col    int  // selo: the non-key column to order by; selnk: the column of the extra constraint
	nkval  sval // selnk: c<col> = nkval
}

// l2fault: a one-shot storage fault for the duration of one statement: the k-th matching request
// (on = "G": any GET; "P": any PUT outside merged/) is answered 403
type l2fault struct {
	on string
	k  int
}
type scon struct {
	op string // eq lt le ge gt
	v  sval
}

var opSQL = map[string]string{"eq": "=", "lt": "<", "le": "<=", "ge": ">=", "gt": ">"}

func fmtTime(sec int64) string { return time.Unix(sec, 0).UTC().Format("2006-01-02 15:04:05") }

// run a statement on the s3db table and (when kept) on the native twin; report both outcomes
func (w *l2world) execBoth(c *l2conn, stmt string, args ...interface{}) (string, string) {
	var nat string
	var err error
	if catch(func() { _, err = c.db.Exec(strings.ReplaceAll(stmt, "@T", c.table), args...) }) {
		// a Go panic inside the extension crossed the cgo boundary: in a real host the process
		// aborts; here SQLite's state is unusable from now on
		w.dead = true
		w.lastFailed = true
		fmt.Fprintf(os.Stderr, "PANIC in statement: %s args=%v\n", stmt, args)
		return "panic", ""
	}
	w.lastFailed = err != nil
	if w.native && c.native != "" && !(w.fltFired && err != nil) {
		// (a statement that failed because of an injected storage fault is not run on the twin)
		_, nerr := c.db.Exec(strings.ReplaceAll(stmt, "@T", c.native), args...)
		nat = classifyErr(nerr)
	}
	return classifyErr(err), nat
}

// exec with a storage fault: the statement runs with a one-shot fault installed in the proxy.
// The case line gets "F <on> <k> <skip>" as an operation of its own, followed by the statement;
// when the fault fired and the statement failed, skip = the statement's token count: the model
// leaves the statement out (a failed COMMIT = ROLLBACK) and everything after it must look as if
// the statement had never been issued (C05, C07, C14, C16).
func (w *l2world) exec(op *sop, stats map[string]int) bool {
	if op.flt == nil {
		return w.exec1(op, stats)
	}
	f := op.flt
	cnt := 0
	w.fltFired, w.lastFailed = false, false
	w.px.mu.Lock()
	w.px.plan = func(idx int, kind, key string) int {
		if w.fltFired || !strings.HasPrefix(key, w.prefix+"/") {
			return fOK
		}
		match := (f.on == "G" && kind == "G") || (f.on == "P" && kind == "P" && !strings.Contains(key, "/merged/")) ||
			(f.on == "Dn" && kind == "D" && strings.Contains(key, "/node/")) || (f.on == "Dm" && kind == "D" && strings.Contains(key, "/merged/")) ||
			(f.on == "Pm" && kind == "P" && strings.Contains(key, "/merged/")) || (f.on == "Dc" && kind == "D" && strings.Contains(key, "/current/")) ||
			(f.on == "L" && kind == "L")
		if !match {
			return fOK
		}
		if cnt == f.k {
			w.fltFired = true
			return fErr
		}
		cnt++
		return fOK
	}
	w.px.mu.Unlock()
	outLen, opsLen, nops0 := w.out.sb.Len(), w.ops.sb.Len(), w.nops
	ok := w.exec1(op, stats)
	w.px.mu.Lock()
	w.px.plan = nil
	w.px.mu.Unlock()
	if !ok {
		return false
	}
	opText, outText := w.ops.sb.String()[opsLen:], w.out.sb.String()[outLen:]
	opsHead, outHead := w.ops.sb.String()[:opsLen], w.out.sb.String()[:outLen]
	w.ops.sb.Reset()
	w.ops.sb.WriteString(opsHead)
	w.out.sb.Reset()
	w.out.sb.WriteString(outHead)
	x := w.fltFired && w.lastFailed && !(f.on == "Dn" || f.on == "Dm")
	// (a DELETE fault on history deletion is part of the model's run of the vacuum: the statement
	//  is not left out; a fault on the retirement of a superseded version — Pm, Dc — is swallowed
	//  by the commit, which the model reproduces under the same plan: if the statement fails
	//  nevertheless it is left out like any other and must have published nothing)
	skip := 0
	if x {
		skip = len(strings.Fields(opText))
		stats["xfail_"+op.kind+"_"+f.on]++
	} else if w.fltFired {
		stats["fault_survived_"+op.kind]++
	} else {
		stats["fault_not_reached"]++
	}
	w.ops.s("F")
	w.ops.s(f.on)
	w.ops.i(f.k)
	w.ops.i(skip)
	w.out.s(";")
	w.out.s("F")
	w.ops.sb.WriteString(opText)
	if x {
		w.out.s(";")
		w.out.s("xerr")
	} else {
		w.out.sb.WriteString(outText)
	}
	w.nops = nops0 + 2
	w.fltFired = false
	return true
}

func (w *l2world) exec1(op *sop, stats map[string]int) bool {
	out := w.out
	var o tw
	c := w.conns[op.c]
	if w.dead {
		return false
	}
	if op.kind != "conn" && (c == nil || (op.kind != "create" && op.kind != "begin" && !c.created)) {
		return false
	}
	w.px.takeLog()
	if !perWorldProxy {
		// the order in which an open merges the versions it lists comes from math/rand's global source
		// (kv.mergeRoots shuffles): seeded per operation, from the world and the operation's position,
		// so that a history takes the same merge orders in every run (not in the threaded level, where
		// worlds share the source)
		h := int64(1469598103934665603)
		for _, ch := range w.bucket {
			h = (h ^ int64(ch)) * 1099511628211
		}
		rand.Seed(h + int64(w.nops)*7919)
	}
	switch op.kind {
	case "conn":
		db, err := sql.Open("sqlite3", ":memory:")
		if err != nil {
			panic(err)
		}
		db.SetMaxOpenConns(1)
		w.conns[op.c] = &l2conn{db: db}
		o.s("conn")
		o.i(op.c)
		out.s(";")
		out.s("ok")
	case "create":
		if c.table == "" || c.created {
			c.table = fmt.Sprintf("t%d", nextCounter()) // (a retry after a failed attach uses the same name)
		}
		c.ro = op.ro
		opts := ""
		if op.ro {
			opts += "readonly,\n"
		}
		if w.epn > 0 {
			opts += fmt.Sprintf("entries_per_node=%d,\n", w.epn)
		}
		if w.cache > 0 && !(w.cacheMixed && op.c%2 == 1) {
			opts += fmt.Sprintf("node_cache_entries=%d,\n", w.cache)
		}
		_, err := c.db.Exec(fmt.Sprintf("create virtual table %s using s3db (\ns3_bucket='%s',\ns3_endpoint='%s',\ns3_prefix='%s',\n%scolumns='%s')",
			c.table, w.bucket, w.px.url, w.prefix, opts, w.colDecl()))
		w.lastFailed = err != nil
		if err != nil && os.Getenv("VERIF_TRACE") != "" {
			fmt.Fprintf(os.Stderr, "create error: %v\n", err)
		}
		out.s(";")
		out.s(classifyErr(err))
		var mo tw
		getOrder, retire, _ := w.muts(&mo)
		out.sb.WriteString(mo.String())
		o.s("create")
		o.i(op.c)
		o.b(op.ro)
		w.names(&o, getOrder)
		w.names(&o, retire)
		if err == nil {
			c.created = true
			if w.native && c.native == "" && !op.ro {
				c.native = fmt.Sprintf("n%d", nextCounter())
				if _, err := c.db.Exec(fmt.Sprintf("create table %s (%s) without rowid", c.native, w.colDecl())); err != nil {
					panic(err)
				}
			}
			stats["create_ok"]++
		} else {
			stats["create_err"]++
		}
	case "wt":
		var err error
		if op.t == 0 {
			_, err = c.db.Exec("update s3db_conn set write_time=NULL")
		} else {
			_, err = c.db.Exec("update s3db_conn set write_time=?", fmtTime(op.t))
		}
		out.s(";")
		out.s(classifyErr(err))
		o.s("wt")
		o.i(op.c)
		o.z(op.t)
		w.curWT[op.c] = op.t
	case "ins":
		ph := "?"
		args := []interface{}{op.key.goValue()}
		for _, v := range op.vals {
			ph += ",?"
			args = append(args, v.goValue())
		}
		r, nat := w.execBoth(c, "insert into @T ("+w.colList()+") values ("+ph+")", args...)
		out.s(";")
		out.s(r)
		if w.native {
			out.s("nat:" + nat)
		}
		var mo tw
		_, retire, _ := w.muts(&mo)
		out.sb.WriteString(mo.String())
		o.s("ins")
		o.i(op.c)
		o.sval(op.key)
		o.i(len(op.vals))
		for _, v := range op.vals {
			o.sval(v)
		}
		w.names(&o, retire)
		stats["ins_"+r]++
		if r == "ok" {
			cp := *op
			w.writes = append(w.writes, pastWrite{&cp, w.curWT[op.c]})
		}
	case "upd":
		var sets []string
		var args []interface{}
		for i, m := range op.mask {
			if m {
				sets = append(sets, fmt.Sprintf("c%d=?", i))
				args = append(args, op.vals[i].goValue())
			}
		}
		args = append(args, op.key.goValue())
		r, nat := w.execBoth(c, "update @T set "+strings.Join(sets, ",")+" where k=?", args...)
		out.s(";")
		out.s(r)
		if w.native {
			out.s("nat:" + nat)
		}
		var mo tw
		_, retire, _ := w.muts(&mo)
		out.sb.WriteString(mo.String())
		o.s("upd")
		o.i(op.c)
		o.sval(op.key)
		o.i(len(op.mask))
		for i, m := range op.mask {
			if m {
				o.s("S")
				o.sval(op.vals[i])
			} else {
				o.s("_")
			}
		}
		w.names(&o, retire)
		stats["upd_"+r]++
		if r == "ok" {
			cp := *op
			w.writes = append(w.writes, pastWrite{&cp, w.curWT[op.c]})
		}
	case "del":
		r, nat := w.execBoth(c, "delete from @T where k=?", op.key.goValue())
		out.s(";")
		out.s(r)
		if w.native {
			out.s("nat:" + nat)
		}
		var mo tw
		_, retire, _ := w.muts(&mo)
		out.sb.WriteString(mo.String())
		o.s("del")
		o.i(op.c)
		o.sval(op.key)
		w.names(&o, retire)
		stats["del_"+r]++
		if r == "ok" {
			cp := *op
			w.writes = append(w.writes, pastWrite{&cp, w.curWT[op.c]})
		}
	case "sel", "selnk":
		q := "select " + w.colList() + " from @T"
		var args []interface{}
		nterms := 0
		if op.kind == "selnk" {
			// a constraint on a non-key column written FIRST: SQLite hands it to xBestIndex before
			// the key constraints and filters on it itself
			q += fmt.Sprintf(" where c%d = ?", op.col)
			args = append(args, op.nkval.goValue())
			nterms++
		}
		for _, cn := range op.cons {
			if nterms == 0 {
				q += " where "
			} else {
				q += " and "
			}
			nterms++
			q += "k " + opSQL[cn.op] + " ?"
			args = append(args, cn.v.goValue())
		}
		if op.desc {
			q += " order by k desc"
		} else {
			q += " order by k"
		}
		if op.limit > 0 {
			q += fmt.Sprintf(" limit %d", op.limit)
		}
		out.s(";")
		if op.desc {
			out.s("SD")
		} else {
			out.s("SA")
		}
		var got [][]sval
		var err error
		panicked := catch(func() {
			var rows *sql.Rows
			rows, err = c.db.Query(strings.ReplaceAll(q, "@T", c.table), args...)
			if err == nil {
				got, err = scanRows(rows)
			}
		})
		if panicked {
			out.s("panic")
			stats["sel_panic"]++
			w.dead = true
			fmt.Fprintf(os.Stderr, "PANIC in select: %s args=%v\n", q, args)
		} else if err != nil {
			w.lastFailed = true
			if strings.Contains(err.Error(), "backward: load: unknown link type") {
				// mast Cursor.Backward follows a nil child link of a sparse interior node
				out.s("err:backward_nil_link")
			} else {
				out.s("err")
			}
			stats["sel_err"]++
		} else {
			out.s("ok")
			w.rowsOut(out, got)
			stats[fmt.Sprintf("sel_rows_%d", min(len(got), 3))]++
		}
		if w.native && c.native != "" {
			rows, err := c.db.Query(strings.ReplaceAll(q, "@T", c.native), args...)
			var nat [][]sval
			if err == nil {
				nat, err = scanRows(rows)
			}
			out.s("nat:")
			if err != nil {
				out.s("err")
			} else {
				out.s("ok")
				w.rowsOut(out, nat)
			}
		}
		o.s(op.kind)
		o.i(op.c)
		o.b(op.desc)
		o.i(len(op.cons))
		for _, cn := range op.cons {
			o.s(cn.op)
			o.sval(cn.v)
		}
		o.i(op.limit)
		if op.kind == "selnk" {
			o.i(op.col)
			o.sval(op.nkval)
		}
	case "selo":
		// ORDER BY a non-key column (ties by key): the cursor delivers key order and must not
		// tell SQLite that any other order is already satisfied
		q := fmt.Sprintf("select "+w.colList()+" from @T order by c%d", op.col)
		if op.desc {
			q += " desc"
		}
		q += ", k"
		out.s(";")
		out.s("SO")
		var got [][]sval
		var err error
		if catch(func() {
			var rows *sql.Rows
			rows, err = c.db.Query(strings.ReplaceAll(q, "@T", c.table))
			if err == nil {
				got, err = scanRows(rows)
			}
		}) {
			out.s("panic")
			w.dead = true
		} else if err != nil {
			w.lastFailed = true
			out.s("err")
		} else {
			out.s("ok")
			w.rowsOut(out, got)
			stats["selo"]++
		}
		if w.native && c.native != "" {
			rows, err := c.db.Query(strings.ReplaceAll(q, "@T", c.native))
			var nat [][]sval
			if err == nil {
				nat, err = scanRows(rows)
			}
			emptyText := false
			for _, r := range nat {
				for _, v := range r {
					if v.tag == 'T' && len(v.bs) == 0 {
						emptyText = true // (finding F-C08-1: read back as NULL, which sorts elsewhere)
					}
				}
			}
			if err == nil && !emptyText {
				out.s("nat:")
				out.s("ok")
				w.rowsOut(out, nat)
			}
		}
		o.s("selo")
		o.i(op.c)
		o.i(op.col)
		o.b(op.desc)
	case "rdconn":
		var dl, wt sql.NullString
		err := c.db.QueryRow("select deadline, write_time from s3db_conn").Scan(&dl, &wt)
		out.s(";")
		if err != nil {
			out.s("err")
		} else {
			out.s("ok")
			for _, v := range []sql.NullString{dl, wt} {
				if !v.Valid {
					out.s("N")
					continue
				}
				t, perr := time.Parse("2006-01-02 15:04:05", v.String)
				switch {
				case perr != nil:
					out.s("?")
				case time.Since(t) > -time.Hour && time.Since(t) < 24*time.Hour:
					out.s("A") // the automatic transaction time (wall clock)
				default:
					out.z(t.Unix()) // an explicit time (the generators use 2023, 2050 and 2100)
				}
			}
		}
		o.s("rdconn")
		o.i(op.c)
	case "dl":
		var err error
		if op.t == 0 {
			_, err = c.db.Exec("update s3db_conn set deadline=NULL")
		} else {
			_, err = c.db.Exec("update s3db_conn set deadline=?", fmtTime(op.t))
		}
		out.s(";")
		out.s(classifyErr(err))
		o.s("dl")
		o.i(op.c)
		o.z(op.t)
	case "changes":
		ch := fmt.Sprintf("ch%d", nextCounter())
		args := fmt.Sprintf("table='%s'", c.table)
		toJSON := func(canon []string) string {
			raw := make([]string, 0, len(canon))
			for _, cn := range canon {
				for r, i := range w.nm.m {
					if "#"+strconv.Itoa(i) == cn {
						raw = append(raw, r)
					}
				}
			}
			b, _ := json.Marshal(raw)
			return string(b)
		}
		args += fmt.Sprintf(", from='%s', to='%s'", toJSON(op.from), toJSON(op.to))
		_, err := c.db.Exec(fmt.Sprintf("create virtual table %s using s3db_changes(%s)", ch, args))
		out.s(";")
		if err != nil {
			out.s("err")
			classifyErr(err)
		} else {
			done := make(chan struct{})
			var got [][]sval
			var qerr error
			go func() {
				defer close(done)
				rows, err := c.db.Query("select " + w.colList() + " from " + ch)
				if err == nil {
					got, err = scanRows(rows)
				}
				qerr = err
			}()
			select {
			case <-done:
				if qerr != nil {
					out.s("qerr")
					classifyErr(qerr)
				} else {
					out.s("ok")
					w.rowsOut(out, got)
				}
				c.db.Exec("drop table " + ch)
			case <-time.After(20 * time.Second):
				out.s("hang")
				w.dead = true
			}
		}
		o.s("changes")
		o.i(op.c)
		w.canonNames(&o, op.from)
		w.canonNames(&o, op.to)
		stats["changes"]++
	case "begin", "commit", "rollback":
		_, err := c.db.Exec(op.kind)
		w.lastFailed = err != nil
		if op.kind == "begin" && err == nil {
			c.intx = true
		}
		if op.kind != "begin" {
			c.intx = false
		}
		out.s(";")
		out.s(classifyErr(err))
		var mo tw
		_, retire, _ := w.muts(&mo)
		out.sb.WriteString(mo.String())
		o.s(op.kind)
		o.i(op.c)
		w.names(&o, retire)
		stats[op.kind]++
	case "refresh":
		_, err := c.db.Exec("select s3db_refresh(?)", c.table)
		w.lastFailed = err != nil
		out.s(";")
		out.s(classifyErr(err))
		var mo tw
		getOrder, retire, _ := w.muts(&mo)
		out.sb.WriteString(mo.String())
		o.s("refresh")
		o.i(op.c)
		w.names(&o, getOrder)
		w.names(&o, retire)
		stats["refresh"]++
	case "version":
		var js sql.NullString
		err := c.db.QueryRow("select s3db_version(?)", c.table).Scan(&js)
		out.s(";")
		if err != nil {
			out.s("err")
		} else {
			var l []string
			json.Unmarshal([]byte(js.String), &l)
			out.s("ok")
			out.s("{")
			w.names(out, l)
			out.s("}")
			cl := []string{}
			for _, n := range l {
				cl = append(cl, w.nm.nm(n))
			}
			w.versions = append(w.versions, cl)
		}
		o.s("version")
		o.i(op.c)
	case "vacuum":
		// rows before, the vacuum, rows after on the same connection, rows seen by a fresh
		// read-only connection, and a reachability walk of the bucket
		selAll := func(db *sql.DB, table string) (string, bool) {
			var t tw
			rows, err := db.Query("select " + w.colList() + " from " + table + " order by k")
			var got [][]sval
			if err == nil {
				got, err = scanRows(rows)
			}
			if err != nil {
				return " err", false
			}
			t.s("ok")
			w.rowsOut(&t, got)
			return t.String(), true
		}
		vb, _ := selAll(c.db, c.table)
		freshRead := func() (string, []string) {
			fdb, ferr := sql.Open("sqlite3", ":memory:")
			vf := " err"
			var forder []string
			if ferr == nil {
				fdb.SetMaxOpenConns(1)
				ft := fmt.Sprintf("t%d", nextCounter())
				opts := "readonly,\n"
				if w.epn > 0 {
					opts += fmt.Sprintf("entries_per_node=%d,\n", w.epn)
				}
				w.px.takeLog()
				_, cerr := fdb.Exec(fmt.Sprintf("create virtual table %s using s3db (\ns3_bucket='%s',\ns3_endpoint='%s',\ns3_prefix='%s',\n%scolumns='%s')",
					ft, w.bucket, w.px.url, w.prefix, opts, w.colDecl()))
				if cerr == nil {
					vf, _ = selAll(fdb, ft)
				}
				seen := map[string]bool{}
				for _, r := range w.px.takeLog() {
					cl, name := l2class(w.prefix, r.key)
					if r.kind == "G" && cl == "c" && !seen[name] {
						seen[name] = true
						forder = append(forder, name)
					}
				}
				fdb.Close()
			}
			return vf, forder
		}
		vf0, forder0 := freshRead()
		w.px.takeLog()
		var verr sql.NullString
		err := c.db.QueryRow("select vacuum_error from s3db_vacuum(?, ?)", c.table, fmtTime(op.before)).Scan(&verr)
		out.s(";")
		if err != nil || verr.Valid {
			out.s("err")
			if verr.Valid {
				classifyErr(fmt.Errorf("vacuum: %s", verr.String))
			}
		} else {
			out.s("ok")
		}
		var mo tw
		_, retire, _ := w.mutsG(&mo, "{", "}") // history is deleted in map-iteration order
		out.sb.WriteString(mo.String())
		va, _ := selAll(c.db, c.table)
		out.s("VB")
		out.sb.WriteString(vb)
		out.s("VA")
		out.sb.WriteString(va)
		vf, forder := freshRead()
		out.s("VF0")
		out.sb.WriteString(vf0)
		out.s("VF")
		out.sb.WriteString(vf)
		out.s("RW")
		out.s(w.reachability(op.before >= 4102444800))
		o.s("vacuum")
		o.i(op.c)
		o.z(op.before)
		w.names(&o, retire)
		w.names(&o, forder0)
		w.names(&o, forder)
		stats["vacuum"]++
	default:
		panic("unknown sql op " + op.kind)
	}
	if c2 := w.conns[op.c]; c2 != nil && c2.ro && op.kind != "conn" {
		n := 0
		for _, r := range w.px.takeLog() {
			if r.ok && (r.kind == "P" || r.kind == "D") {
				n++
			}
		}
		w.roMuts += w.lastMuts + n
		out.s("RO:" + strconv.Itoa(w.lastMuts+n))
	}
	w.lastMuts = 0
	w.ops.sb.WriteString(o.String())
	w.nops++
	return true
}

func (w *l2world) connInTx(c int) bool {
	cn := w.conns[c]
	return cn != nil && cn.intx
}

// layoutCheck (C16): every version under current/ at the end of a history is well-formed ON ITS OWN at
// node level — the invariant MInv2 of the Coq development (MastInvProofs / MastNeProofs), checked on
// what the implementation stored: one more link than keys in every node, keys strictly increasing in
// scan order, every entry on the level its key's layer names (entries of the root: at least the
// height), children one level down, no linked node empty.  "" when every version passes.
func (w *l2world) layoutCheck() string {
	pfx := w.prefix + "/s3db-rows/"
	get := func(key string) ([]byte, bool) {
		obj, err := w.px.backend.GetObject(w.bucket, key, nil)
		if err != nil {
			return nil, false
		}
		defer obj.Contents.Close()
		b, err := io.ReadAll(obj.Contents)
		return b, err == nil
	}
	p := gofakes3.NewPrefix(aws.String(pfx+"root/current/"), nil)
	ol, err := w.px.backend.ListBucket(w.bucket, &p, gofakes3.ListBucketPage{})
	if err != nil {
		return ""
	}
	for _, c := range ol.Contents {
		b, ok := get(c.Key)
		if !ok {
			continue
		}
		var root struct {
			Link         *string
			Size         uint64
			Height       uint8
			BranchFactor uint
		}
		if json.Unmarshal(b, &root) != nil || root.Link == nil {
			continue
		}
		count := uint64(0)
		var last *s3db.Key
		var walk func(link string, level int, isRoot bool) string
		walk = func(link string, level int, isRoot bool) string {
			nb, ok := get(pfx + "node/" + link)
			if !ok {
				return "" // (a missing node is the business of the reachability walk)
			}
			var n mast.Node
			if err := s3db.VerifUnmarshalNode(nb, &n); err != nil {
				return "undecodable-node"
			}
			if len(n.Link) == 0 {
				n.Link = make([]interface{}, len(n.Key)+1)
			}
			if len(n.Link) != len(n.Key)+1 || len(n.Value) != len(n.Key) {
				return fmt.Sprintf("node-with-%d-keys-%d-values-%d-links", len(n.Key), len(n.Value), len(n.Link))
			}
			if !isRoot && len(n.Key) == 0 && n.Link[0] == nil {
				return "empty-node-linked"
			}
			for i, l := range n.Link {
				if l != nil {
					if level == 0 {
						return "child-below-level-0"
					}
					if r := walk(l.(string), level-1, false); r != "" {
						return r
					}
				}
				if i < len(n.Key) {
					k := n.Key[i].(*s3db.Key)
					if last != nil && last.Order(k) >= 0 {
						return "keys-not-increasing"
					}
					last = k
					count++
					lay := int(k.Layer(root.BranchFactor))
					if isRoot && lay < level {
						return fmt.Sprintf("root-entry-of-layer-%d-in-a-tree-of-height-%d", lay, level)
					}
					if !isRoot && lay != level {
						return fmt.Sprintf("entry-of-layer-%d-on-level-%d", lay, level)
					}
				}
			}
			return ""
		}
		if r := walk(*root.Link, int(root.Height), true); r != "" {
			return r
		}
		// (the entry count of the version object is not compared: after a rolled-back or failed INSERT on a
		//  tree of several levels it is off by the phantom row of finding F-C05-1)
		_ = count
	}
	return ""
}

func (w *l2world) finish() (string, string) {
	if !w.dead && !w.twinKeys {
		if r := w.layoutCheck(); r != "" {
			w.out.s("; LAYOUT-VIOLATION:" + r)
		}
	}
	w.close()
	w.in.i(w.ncols)
	w.in.i(w.epn)
	w.in.i(w.cache)
	w.in.i(w.nops)
	w.in.sb.WriteString(w.ops.String())
	return w.in.String(), w.out.String()
}

// ---------------------------------------------------------------- generators
type l2profile struct {
	writers    int  // number of read-write connections
	native     bool // single writer compared with a native table
	monotone   bool // non-decreasing write times (C06)
	tx         bool
	vacuum     bool
	allClasses bool
	fullMask   bool // every UPDATE assigns every non-key column
	retries    bool // re-issue earlier statements with their original write time
	connAttrs  bool // read and change s3db_conn
	changes    bool // s3db_changes between recorded versions
	roReader   bool // an extra read-only connection that does everything
	autoTime   bool // some transactions run without an explicit write time
	faults     bool // one-shot storage faults during statements; a fresh reader looks at the end
	cacheStory bool // connections with and without a node cache on one prefix, vacuums in between
}

var keyPoolAll = []sval{
	{tag: 'I', i: 0}, {tag: 'I', i: 1}, {tag: 'I', i: -1}, {tag: 'I', i: 2}, {tag: 'I', i: 7}, {tag: 'I', i: 64},
	{tag: 'I', i: math.MaxInt64}, {tag: 'I', i: math.MinInt64}, {tag: 'I', i: 1 << 40},
	{tag: 'R', bits: math.Float64bits(0.5)}, {tag: 'R', bits: math.Float64bits(1.5)}, {tag: 'R', bits: math.Float64bits(-2.25)},
	{tag: 'R', bits: math.Float64bits(1e300)}, {tag: 'R', bits: math.Float64bits(math.Inf(1))}, {tag: 'R', bits: math.Float64bits(math.Inf(-1))},
	{tag: 'T', bs: []byte("a")}, {tag: 'T', bs: []byte("ab")}, {tag: 'T', bs: []byte("b")}, {tag: 'T', bs: []byte("B")},
	{tag: 'T', bs: []byte("\xc3\xa9")}, {tag: 'T', bs: []byte("hello")},
	{tag: 'B', bs: []byte{1}}, {tag: 'B', bs: []byte{1, 2}}, {tag: 'B', bs: []byte{0xff}}, {tag: 'B', bs: []byte("a")},
}

// the value that compares equal in SQLite's order but has the other numeric storage class
func twin(v sval) sval {
	switch v.tag {
	case 'I':
		if v.i > 1<<53 || v.i < -(1<<53) {
			return v // (beyond 2^53 the REAL spelling is another number, and finding F-C07-1 applies)
		}
		return sval{tag: 'R', bits: math.Float64bits(float64(v.i))}
	case 'R':
		f := math.Float64frombits(v.bits)
		if f == math.Trunc(f) && math.Abs(f) < 1e15 {
			return sval{tag: 'I', i: int64(f)}
		}
	}
	return v
}

func (g *gen) l2val() sval {
	if g.r.Intn(24) == 0 {
		return sval{tag: 'B', bs: []byte{}} // the zero-length blob x'': a value of its own, not NULL
	}
	switch g.r.Intn(8) {
	case 0:
		return sval{tag: 'N'}
	case 1, 2:
		return sval{tag: 'I', i: int64(g.r.Intn(7) - 2)}
	case 3:
		return sval{tag: 'R', bits: math.Float64bits(float64(g.r.Intn(9))/4 - 1)}
	case 4, 5:
		return sval{tag: 'T', bs: []byte{byte(97 + g.r.Intn(4))}}
	case 6:
		return sval{tag: 'B', bs: []byte{byte(g.r.Intn(3)), byte(g.r.Intn(3))}}
	default:
		v := g.sval(true, false)
		if v.tag == 'T' && !utf8.Valid(v.bs) {
			v.tag = 'B' // TEXT must be valid UTF-8 (protobuf string); invalid bytes go in as BLOB
		}
		return v
	}
}

const l2BaseSec int64 = 1700000000

func runL2History(g *gen, prof l2profile, nops int, stats map[string]int) (string, string) {
	ncols := 1 + g.r.Intn(3)
	epn := []int{0, 0, 2, 3, 5}[g.r.Intn(5)]
	cache := []int{0, 0, 64}[g.r.Intn(3)]
	if prof.faults {
		// small nodes and no node cache: statements read their nodes from storage
		// (a single-node tree, epn 0, in a third of the cases: the rollback snapshot is exact there,
		//  finding F-C05-1 needs several levels)
		epn = []int{0, 0, 2, 2, 3, 4}[g.r.Intn(6)]
		cache = 0
	}
	if prof.cacheStory {
		epn, cache = 0, 64
	}
	w := newL2World(ncols, epn, cache, prof.native)
	w.cacheMixed = prof.cacheStory
	// key pool for this case
	var keys []sval
	nk := 3 + g.r.Intn(6)
	for i := 0; i < nk; i++ {
		if prof.allClasses && epn == 0 && g.r.Intn(5) == 0 {
			// an integral REAL key (2.0): it is the key 2, and it keeps its own storage class
			// (single-node trees only: finding F-C07-2 files the two spellings at different heights)
			keys = append(keys, sval{tag: 'R', bits: math.Float64bits(float64(g.r.Intn(12)))})
		} else if prof.allClasses && g.r.Intn(2) == 0 {
			keys = append(keys, keyPoolAll[g.r.Intn(len(keyPoolAll))])
		} else {
			keys = append(keys, sval{tag: 'I', i: int64(g.r.Intn(12))})
		}
	}
	if prof.allClasses && g.x().Intn(8) == 0 {
		// "any 64-bit integer": neighbouring integers beyond 2^53 are different keys
		base := []int64{1 << 53, 1 << 60, math.MaxInt64 - 3, -(1 << 53) - 4, 1700000000000000000}[g.x().Intn(5)]
		keys = nil
		for i := int64(0); i < 4; i++ {
			keys = append(keys, sval{tag: 'I', i: base + i})
		}
		stats["keys_neighbouring_large_integers"]++
	}
	key := func() sval { return keys[g.r.Intn(len(keys))] }
	clock := l2BaseSec
	nextT := func() int64 {
		if prof.monotone && prof.faults {
			// strictly increasing: a failed retirement can leave a superseded version under current/,
			// and two writes at ONE time in two versions have no order the properties define
			clock += int64(1+g.r.Intn(2)) * 10
			return clock
		}
		if prof.monotone {
			clock += int64(g.r.Intn(3)) * 10 // non-decreasing, ties possible
			if clock == l2BaseSec {
				clock += 10
			}
			return clock
		}
		return l2BaseSec + int64(1+g.r.Intn(8))*10
	}
	do := func(op *sop) bool {
		if prof.faults && !op.nofault && g.r.Intn(4) == 0 {
			switch op.kind {
			case "ins", "upd", "del", "sel":
				op.flt = &l2fault{on: "G", k: g.r.Intn(3)}
				if g.r.Intn(3) == 0 && !w.connInTx(op.c) {
					op.flt = &l2fault{on: "P", k: g.r.Intn(3)}
					if op.kind != "sel" && g.r.Intn(3) == 0 {
						// the retirement of the superseded version after the new one is published
						op.flt = &l2fault{on: []string{"Pm", "Dc"}[g.r.Intn(2)], k: 0}
					}
				}
			case "commit":
				op.flt = &l2fault{on: "P", k: g.r.Intn(4)}
				if g.r.Intn(3) == 0 {
					op.flt = &l2fault{on: []string{"Pm", "Dc"}[g.r.Intn(2)], k: 0}
				}
			case "refresh":
				// a refresh that fails on a storage fault leaves the table as it was: usable, same rows
				op.flt = &l2fault{on: []string{"L", "G", "G"}[g.r.Intn(3)], k: g.r.Intn(2)}
			case "vacuum":
				// the first DELETE of a node, or of a superseded version, fails: the vacuum reports
				// an error, the connection and the table stay usable and show the same rows
				// (node deletions only for single-node trees: the model keeps one node per tree, so with
				//  small nodes it deletes nodes where the implementation finds them shared)
				op.flt = &l2fault{on: "Dm", k: 0}
				if epn == 0 && g.r.Intn(2) == 0 {
					op.flt = &l2fault{on: "Dn", k: 0}
				}
			}
		}
		return w.exec(op, stats)
	}
	nconn := prof.writers
	for c := 0; c < nconn; c++ {
		do(&sop{kind: "conn", c: c})
		if prof.faults && g.r.Intn(3) == 0 {
			// a storage fault while the table is attached: CREATE fails; once the fault has cleared
			// the same statement (same table name) must succeed
			w.exec(&sop{kind: "create", c: c, flt: &l2fault{on: []string{"L", "G"}[g.r.Intn(2)], k: 0}}, stats)
			if !w.conns[c].created {
				do(&sop{kind: "create", c: c})
				stats["script_attach_retry"]++
			}
			continue
		}
		if prof.tx && !prof.faults && g.r.Intn(4) == 0 {
			// the table is created inside an explicit transaction: SQLite then calls xSync / xCommit
			// for it without ever calling xBegin; what the transaction wrote must be committed
			do(&sop{kind: "begin", c: c})
			do(&sop{kind: "create", c: c})
			do(&sop{kind: "wt", c: c, t: l2BaseSec + 5})
			do(&sop{kind: "ins", c: c, key: sval{tag: 'I', i: int64(900 + c)}, vals: nullVals(ncols)})
			do(&sop{kind: "commit", c: c})
			stats["script_create_inside_tx"]++
			continue
		}
		do(&sop{kind: "create", c: c})
	}
	if prof.roReader {
		do(&sop{kind: "conn", c: nconn})
		do(&sop{kind: "create", c: nconn, ro: true})
	}
	intx := map[int]bool{}
	autoTx := map[int]bool{}
	var recent []sval
	if nconn >= 2 && !prof.roReader && !prof.vacuum && !prof.monotone && g.r.Intn(4) == 0 {
		// an UPDATE that assigns the value a column already holds is a write with its own time: a
		// concurrent, OLDER assignment of another value must lose against it after the merge
		k := key()
		full := func(v sval) ([]sval, []bool) {
			vals, mask := make([]sval, ncols), make([]bool, ncols)
			for i := range vals {
				vals[i], mask[i] = v, true
			}
			return vals, mask
		}
		v1, m1 := full(sval{tag: 'I', i: 41})
		v2, m2 := full(sval{tag: 'I', i: 42})
		do(&sop{kind: "wt", c: 0, t: l2BaseSec + 10})
		do(&sop{kind: "ins", c: 0, key: k, vals: v1})
		do(&sop{kind: "refresh", c: 1})
		do(&sop{kind: "wt", c: 0, t: l2BaseSec + 30})
		do(&sop{kind: "upd", c: 0, key: k, vals: v1, mask: m1})
		do(&sop{kind: "wt", c: 1, t: l2BaseSec + 20})
		do(&sop{kind: "upd", c: 1, key: k, vals: v2, mask: m2})
		do(&sop{kind: "refresh", c: 0})
		do(&sop{kind: "refresh", c: 1})
		do(&sop{kind: "sel", c: 0})
		do(&sop{kind: "sel", c: 1})
		stats["script_same_value_reassigned"]++
	}
	if prof.changes && !prof.roReader && g.r.Intn(3) == 0 {
		// a row deleted in version A and inserted again with every non-key column NULL before
		// version B: it is visible in B and absent from A, so changes(A, B) returns it
		k := sval{tag: 'I', i: 555}
		do(&sop{kind: "wt", c: 0, t: l2BaseSec + 1})
		do(&sop{kind: "ins", c: 0, key: k, vals: []sval{g.l2val(), g.l2val(), g.l2val()}[:ncols]})
		do(&sop{kind: "wt", c: 0, t: l2BaseSec + 2})
		do(&sop{kind: "del", c: 0, key: k})
		do(&sop{kind: "version", c: 0})
		va := w.versions[len(w.versions)-1]
		do(&sop{kind: "wt", c: 0, t: l2BaseSec + 3})
		do(&sop{kind: "ins", c: 0, key: k, vals: nullVals(ncols)})
		do(&sop{kind: "version", c: 0})
		vb := w.versions[len(w.versions)-1]
		do(&sop{kind: "changes", c: 0, from: va, to: vb})
		do(&sop{kind: "changes", c: 0, from: vb, to: va})
		stats["script_reinserted_null_row"]++
	}
	if prof.cacheStory {
		// A (cache) writes two versions; B (no cache) vacuums the first one's node away; C (cache)
		// brings the table back to the first content and vacuums: every connection's cache is its
		// own, so C must upload the node again and a fresh reader sees the row
		row := func() []sval { return nullVals(ncols) }
		do(&sop{kind: "wt", c: 0, t: l2BaseSec + 1})
		do(&sop{kind: "ins", c: 0, key: sval{tag: 'I', i: 1}, vals: row()})
		do(&sop{kind: "wt", c: 0, t: l2BaseSec + 2})
		do(&sop{kind: "ins", c: 0, key: sval{tag: 'I', i: 2}, vals: row()})
		do(&sop{kind: "refresh", c: 1})
		do(&sop{kind: "vacuum", c: 1, before: 4102444800})
		do(&sop{kind: "refresh", c: 2})
		do(&sop{kind: "wt", c: 2, t: l2BaseSec + 3})
		do(&sop{kind: "del", c: 2, key: sval{tag: 'I', i: 2}})
		do(&sop{kind: "vacuum", c: 2, before: 4102444800})
		do(&sop{kind: "refresh", c: 0})
		do(&sop{kind: "refresh", c: 1})
		do(&sop{kind: "sel", c: 1})
		stats["script_cache_story"]++
	}
	if prof.faults && g.r.Intn(3) == 0 {
		// a vacuum that purges a deleted row (so that it commits a new version and the version the
		// connection was on becomes deletable) and whose first deletion of a version object fails:
		// the vacuum reports an error, the connection must stay readable and writable
		ks := []sval{{tag: 'I', i: 101}, {tag: 'I', i: 102}, {tag: 'I', i: 103}}
		row := func() []sval { return []sval{g.l2val(), g.l2val(), g.l2val()}[:ncols] }
		do(&sop{kind: "wt", c: 0, t: l2BaseSec + 1})
		do(&sop{kind: "ins", c: 0, key: ks[0], vals: row()})
		do(&sop{kind: "ins", c: 0, key: ks[1], vals: row()})
		do(&sop{kind: "wt", c: 0, t: l2BaseSec + 2})
		do(&sop{kind: "del", c: 0, key: ks[1]})
		w.exec(&sop{kind: "vacuum", c: 0, before: 4102444800, flt: &l2fault{on: "Dm", k: 0}}, stats)
		do(&sop{kind: "sel", c: 0})
		do(&sop{kind: "wt", c: 0, t: l2BaseSec + 3})
		do(&sop{kind: "ins", c: 0, key: ks[2], vals: row()})
		do(&sop{kind: "sel", c: 0})
		stats["script_vacuum_interrupted"]++
	}
	if prof.connAttrs && prof.autoTime && g.r.Intn(3) == 0 {
		// a transaction that starts with the automatic write time and gets an explicit one after its
		// first write: the explicit time applies from then on and stays set after COMMIT
		t1 := nextT()
		do(&sop{kind: "wt", c: 0, t: 0})
		do(&sop{kind: "begin", c: 0})
		do(&sop{kind: "ins", c: 0, key: key(), vals: []sval{g.l2val(), g.l2val(), g.l2val()}[:ncols]})
		do(&sop{kind: "wt", c: 0, t: t1})
		do(&sop{kind: "ins", c: 0, key: key(), vals: []sval{g.l2val(), g.l2val(), g.l2val()}[:ncols]})
		do(&sop{kind: "commit", c: 0})
		do(&sop{kind: "rdconn", c: 0})
		do(&sop{kind: "upd", c: 0, key: key(), vals: []sval{g.l2val(), g.l2val(), g.l2val()}[:ncols], mask: []bool{true, true, true}[:ncols]})
		stats["script_wt_inside_auto_tx"]++
	}
	ivals := func(v int64) []sval {
		return []sval{{tag: 'I', i: v}, {tag: 'I', i: v}, {tag: 'I', i: v}}[:ncols]
	}
	fullm := []bool{true, true, true}[:ncols]
	doq := func(op *sop) bool { op.nofault = true; return do(op) }
	tick := func() int64 {
		if prof.monotone {
			clock += 10
			return clock
		}
		return l2BaseSec + int64(1+g.x().Intn(8))*10
	}
	_, _ = doq, tick
	if nconn >= 2 && !prof.vacuum && !prof.roReader && !prof.cacheStory && g.r.Intn(4) == 0 {
		// a DELETE older than an UPDATE the deleting writer has not seen cannot undo that UPDATE after
		// merging (C15): the row inserted at :10 and updated at :30 survives the other writer's DELETE at :20
		k := sval{tag: 'I', i: 970}
		do(&sop{kind: "wt", c: 0, t: l2BaseSec + 10})
		do(&sop{kind: "ins", c: 0, key: k, vals: ivals(1)})
		do(&sop{kind: "refresh", c: 1})
		do(&sop{kind: "wt", c: 0, t: l2BaseSec + 30})
		do(&sop{kind: "upd", c: 0, key: k, vals: ivals(2), mask: fullm})
		do(&sop{kind: "wt", c: 1, t: l2BaseSec + 20})
		do(&sop{kind: "del", c: 1, key: k})
		do(&sop{kind: "refresh", c: 0})
		do(&sop{kind: "refresh", c: 1})
		do(&sop{kind: "sel", c: 0})
		do(&sop{kind: "sel", c: 1})
		stats["script_stale_delete_vs_update"]++
	}
	if prof.autoTime && g.r.Intn(3) == 0 {
		// an explicit write time far in the future, used once, does not leak into later automatic
		// write times — of this or of any other connection in the process (C15, C19): a row inserted
		// with the automatic time (now) is replaced by an UPDATE at an explicit time in 2050
		c := g.r.Intn(nconn)
		do(&sop{kind: "wt", c: c, t: 4102444800 + int64(g.r.Intn(1000))})
		do(&sop{kind: "ins", c: c, key: sval{tag: 'I', i: 960}, vals: ivals(1)})
		do(&sop{kind: "wt", c: c, t: 0})
		do(&sop{kind: "ins", c: c, key: sval{tag: 'I', i: 961}, vals: ivals(1)})
		do(&sop{kind: "wt", c: c, t: 2524608000})
		do(&sop{kind: "upd", c: c, key: sval{tag: 'I', i: 961}, vals: ivals(2), mask: fullm})
		do(&sop{kind: "sel", c: c})
		do(&sop{kind: "wt", c: c, t: nextT()})
		stats["script_future_time_does_not_leak"]++
	}
	if prof.connAttrs && prof.autoTime && g.r.Intn(3) == 0 {
		// a transaction with the automatic write time whose connection sets a DEADLINE between two
		// writes to one row: the transaction keeps its one write time (the second write is read back),
		// and no write time is left set after COMMIT
		vals := func(v int64) []sval {
			return []sval{{tag: 'I', i: v}, {tag: 'I', i: v}, {tag: 'I', i: v}}[:ncols]
		}
		do(&sop{kind: "wt", c: 0, t: 0})
		do(&sop{kind: "begin", c: 0})
		do(&sop{kind: "ins", c: 0, key: sval{tag: 'I', i: 950}, vals: vals(1)})
		do(&sop{kind: "dl", c: 0, t: 4102444800})
		do(&sop{kind: "upd", c: 0, key: sval{tag: 'I', i: 950}, vals: vals(2), mask: []bool{true, true, true}[:ncols]})
		do(&sop{kind: "sel", c: 0})
		do(&sop{kind: "commit", c: 0})
		do(&sop{kind: "rdconn", c: 0})
		do(&sop{kind: "sel", c: 0})
		stats["script_deadline_inside_auto_tx"]++
	}
	if prof.changes && !prof.roReader && !prof.vacuum && nconn >= 2 && g.x().Intn(2) == 0 {
		// version lists with SEVERAL members that share one: two writers that never merge each other,
		// and a read-only reader that records what it sees before and after one of them moves on.
		// The shared member holds the newest cells of a row the other member deletes: what the two
		// lists show is decided by merging ALL their members.
		rc := nconn + 1
		doq(&sop{kind: "conn", c: rc})
		doq(&sop{kind: "create", c: rc, ro: true})
		doq(&sop{kind: "wt", c: 0, t: l2BaseSec + 100})
		doq(&sop{kind: "ins", c: 0, key: sval{tag: 'I', i: 880}, vals: ivals(1)})
		doq(&sop{kind: "refresh", c: 1})
		doq(&sop{kind: "wt", c: 0, t: l2BaseSec + 110})
		doq(&sop{kind: "upd", c: 0, key: sval{tag: 'I', i: 880}, vals: ivals(2), mask: fullm})
		doq(&sop{kind: "wt", c: 1, t: l2BaseSec + 120})
		doq(&sop{kind: "ins", c: 1, key: sval{tag: 'I', i: 881}, vals: ivals(3)})
		doq(&sop{kind: "refresh", c: rc})
		doq(&sop{kind: "version", c: rc})
		if len(w.versions) > 0 {
			old := w.versions[len(w.versions)-1]
			doq(&sop{kind: "wt", c: 1, t: l2BaseSec + 130})
			doq(&sop{kind: "del", c: 1, key: sval{tag: 'I', i: 880}})
			doq(&sop{kind: "refresh", c: rc})
			doq(&sop{kind: "version", c: rc})
			cur := w.versions[len(w.versions)-1]
			doq(&sop{kind: "changes", c: rc, from: cur, to: old})
			doq(&sop{kind: "changes", c: rc, from: old, to: cur})
			doq(&sop{kind: "changes", c: 0, from: cur, to: old})
			if len(old) >= 2 && len(cur) >= 2 {
				stats["script_changes_shared_member"]++
			}
		}
	}
	if prof.faults && prof.tx && g.x().Intn(2) == 0 {
		// a COMMIT whose FIRST upload fails: the statement reports the failure, the transaction is over
		// (SQLite rolls it back), the rows visible are those before BEGIN, and the connection goes on
		// with a transaction that commits
		k1, k2 := sval{tag: 'I', i: 1500}, sval{tag: 'I', i: 1501}
		doq(&sop{kind: "wt", c: 0, t: tick()})
		doq(&sop{kind: "ins", c: 0, key: k1, vals: ivals(1)})
		doq(&sop{kind: "begin", c: 0})
		doq(&sop{kind: "wt", c: 0, t: tick()})
		doq(&sop{kind: "ins", c: 0, key: k2, vals: ivals(2)})
		doq(&sop{kind: "upd", c: 0, key: k1, vals: ivals(3), mask: fullm})
		w.exec(&sop{kind: "commit", c: 0, nofault: true, flt: &l2fault{on: "P", k: 0}}, stats)
		doq(&sop{kind: "sel", c: 0})
		doq(&sop{kind: "begin", c: 0})
		doq(&sop{kind: "wt", c: 0, t: tick()})
		doq(&sop{kind: "ins", c: 0, key: k2, vals: ivals(4)})
		doq(&sop{kind: "commit", c: 0})
		doq(&sop{kind: "sel", c: 0})
		stats["script_failed_commit_rolls_back"]++
	}
	if prof.native && epn == 0 && g.x().Intn(3) == 0 {
		// descending scans with a LIMIT whose upper bound lies BETWEEN stored keys (the cursor starts
		// above the bound; SQLite drops that row, it must not count against the limit), next to a
		// deleted key whose marker is still in the tree
		for k := int64(10); k <= 90; k += 10 {
			doq(&sop{kind: "wt", c: 0, t: tick()})
			doq(&sop{kind: "ins", c: 0, key: sval{tag: 'I', i: 1000 + k}, vals: ivals(k)})
		}
		doq(&sop{kind: "wt", c: 0, t: tick()})
		doq(&sop{kind: "del", c: 0, key: sval{tag: 'I', i: 1060}})
		iv := func(x int64) sval { return sval{tag: 'I', i: 1000 + x} }
		doq(&sop{kind: "sel", c: 0, desc: true, limit: 1, cons: []scon{{op: "le", v: iv(45)}}})
		doq(&sop{kind: "sel", c: 0, desc: true, limit: 3, cons: []scon{{op: "ge", v: iv(15)}, {op: "le", v: iv(75)}}})
		doq(&sop{kind: "sel", c: 0, desc: true, limit: 2, cons: []scon{{op: "lt", v: iv(85)}}})
		doq(&sop{kind: "sel", c: 0, desc: true, limit: 2, cons: []scon{{op: "lt", v: iv(65)}}})
		doq(&sop{kind: "sel", c: 0, desc: false, limit: 2, cons: []scon{{op: "gt", v: iv(55)}}})
		stats["script_desc_limit_between_keys"]++
	}
	for step := 0; step < nops; step++ {
		c := g.r.Intn(nconn)
		ch := g.r.Intn(100)
		switch {
		case ch < 30:
			if !(intx[c] && autoTx[c]) {
				do(&sop{kind: "wt", c: c, t: nextT()})
			} else if prof.connAttrs && g.r.Intn(3) == 0 {
				// an explicit write time assigned in the middle of a transaction that began with the
				// automatic one: it must stay set after COMMIT
				do(&sop{kind: "wt", c: c, t: nextT()})
				autoTx[c] = false
				do(&sop{kind: "rdconn", c: c})
			}
			vals := make([]sval, ncols)
			for i := range vals {
				vals[i] = g.l2val()
				if vals[i].tag == 'I' || vals[i].tag == 'R' {
					recent = append(recent, vals[i])
				}
			}
			k := key()
			if g.r.Intn(25) == 0 {
				k = sval{tag: 'N'}
			}
			do(&sop{kind: "ins", c: c, key: k, vals: vals})
		case ch < 45:
			if !(intx[c] && autoTx[c]) {
				do(&sop{kind: "wt", c: c, t: nextT()})
			}
			vals := make([]sval, ncols)
			mask := make([]bool, ncols)
			any := false
			for i := range vals {
				vals[i] = g.l2val()
				if len(recent) > 0 && g.r.Intn(4) == 0 {
					// the numerically equal value of the other storage class (1 <-> 1.0), or the same
					// value again: what is written must come back with its own class and bits
					vals[i] = twin(recent[g.r.Intn(len(recent))])
				}
				mask[i] = g.r.Intn(2) == 0
				any = any || mask[i]
			}
			if !any {
				mask[0] = true
			}
			if prof.fullMask {
				for i := range mask {
					mask[i] = true
				}
			}
			do(&sop{kind: "upd", c: c, key: key(), vals: vals, mask: mask})
		case ch < 55:
			if !(intx[c] && autoTx[c]) {
				do(&sop{kind: "wt", c: c, t: nextT()})
			}
			do(&sop{kind: "del", c: c, key: key()})
		case ch < 80:
			op := &sop{kind: "sel", c: c, desc: g.r.Intn(2) == 0}
			nc := []int{0, 0, 1, 1, 2, 3}[g.r.Intn(6)]
			if g.r.Intn(8) == 0 {
				// a lookup by key alone, the operand written in the other numeric storage class
				// (WHERE k = 3.0 for the key 3): the row is found and its key comes back as stored
				op.cons = []scon{{op: "eq", v: twin(key())}}
				nc = -1
				stats["sel_eq_twin"]++
			}
			for i := 0; i < nc; i++ {
				v := key()
				if g.r.Intn(4) == 0 {
					v = g.sval(false, false)
					if v.tag == 'T' && !utf8.Valid(v.bs) {
						v.tag = 'B'
					}
				}
				cop := []string{"eq", "lt", "le", "ge", "gt"}[g.r.Intn(5)]
				if cop == "eq" && g.r.Intn(3) == 0 {
					// the numerically equal operand of the other storage class (WHERE k = 3.0 for the
					// key 3): the row is found, and its key comes back as it was stored
					v = twin(v)
				}
				op.cons = append(op.cons, scon{op: cop, v: v})
			}
			if nc >= 0 && g.r.Intn(3) == 0 {
				// several bounds on the same side, strict and non-strict mixed, at keys that exist:
				// the scan must honour the tightest one whatever the order they are given in
				op.cons = nil
				side := [][]string{{"lt", "le"}, {"gt", "ge"}}[g.r.Intn(2)]
				for i, nb := 0, 2+g.r.Intn(2); i < nb; i++ {
					op.cons = append(op.cons, scon{op: side[g.r.Intn(2)], v: key()})
				}
				if g.r.Intn(3) == 0 {
					other := [][]string{{"lt", "le"}, {"gt", "ge"}}[g.r.Intn(2)]
					op.cons = append(op.cons, scon{op: other[g.r.Intn(2)], v: key()})
				}
				stats["sel_same_side_bounds"]++
			}
			if g.r.Intn(5) == 0 && !(op.desc && epn > 0) {
				// (descending scans of multi-level trees may omit rows, finding F-C06-2: a LIMIT
				// would make the omission impossible to tell from a wrong row)
				op.limit = 1 + g.r.Intn(3)
				if prof.faults {
					// (no LIMIT in fault histories: a row resurrected after a failed retirement — finding
					//  F-C09-1 — pushes expected rows out of the window; LIMIT is the single profile's subject)
					op.limit = 0
				}
			}
			if nc >= 0 && g.r.Intn(10) == 0 && len(op.cons) > 0 {
				// a comparison of the key with NULL: never true, no row, no failure
				op.cons[g.r.Intn(len(op.cons))].v = sval{tag: 'N'}
				stats["sel_null_operand"]++
			}
			if nc >= 0 && g.r.Intn(6) == 0 && op.limit == 0 {
				// an additional constraint on a non-key column, written before the key constraints
				op.kind = "selnk"
				op.col = g.r.Intn(ncols)
				op.nkval = sval{tag: 'I', i: int64(g.r.Intn(7) - 2)}
				if len(recent) > 0 && g.r.Intn(2) == 0 {
					op.nkval = recent[g.r.Intn(len(recent))]
				}
				stats["sel_nonkey_constraint"]++
			}
			do(op)
		case ch < 86 && prof.tx:
			if !intx[c] {
				if prof.autoTime && g.r.Intn(2) == 0 {
					do(&sop{kind: "wt", c: c, t: 0})
					autoTx[c] = true
				}
				do(&sop{kind: "begin", c: c})
				intx[c] = true
			} else {
				k := "commit"
				if g.r.Intn(3) == 0 {
					k = "rollback"
				}
				do(&sop{kind: k, c: c})
				intx[c] = false
				autoTx[c] = false
			}
		case ch < 92 && (nconn > 1 || prof.faults || ch < 89):
			// (a lone connection re-opens its table now and then: what it reads afterwards comes from
			//  storage, not from the tree it built in memory)
			if !intx[c] {
				do(&sop{kind: "refresh", c: c})
			}
		case ch < 95:
			do(&sop{kind: "version", c: c})
		case ch < 97 && prof.vacuum:
			anyTx := false
			for _, x := range intx {
				anyTx = anyTx || x
			}
			if !anyTx {
				do(&sop{kind: "vacuum", c: c, before: []int64{946684800, l2BaseSec + int64(g.r.Intn(9))*10, 4102444800}[g.r.Intn(3)]})
				// a connection whose versions were just vacuumed away reads deleted objects until
				// it refreshes ("until a vacuum whose cutoff covers them", C11): the other
				// connections refresh before they go on
				for oc := 0; oc < nconn; oc++ {
					if oc != c {
						do(&sop{kind: "refresh", c: oc})
					}
				}
				if prof.roReader {
					do(&sop{kind: "refresh", c: nconn})
				}
			}
		default:
			if prof.native && g.r.Intn(2) == 0 {
				// (descending only on single-node trees: a descending ORDER BY makes the cursor scan
				//  backwards, which on multi-level trees is finding F-C06-2)
				do(&sop{kind: "selo", c: c, col: g.r.Intn(ncols), desc: epn == 0 && g.r.Intn(2) == 0})
			} else {
				do(&sop{kind: "sel", c: c})
			}
		}
		if prof.faults && prof.vacuum && !intx[c] && g.r.Intn(7) == 0 {
			do(&sop{kind: "vacuum", c: c, before: []int64{l2BaseSec + int64(g.r.Intn(9))*10, 4102444800, 4102444800}[g.r.Intn(3)]})
			do(&sop{kind: "sel", c: c})
		}
		if prof.connAttrs && g.r.Intn(5) == 0 {
			do(&sop{kind: "rdconn", c: c})
		}
		if prof.connAttrs && g.r.Intn(15) == 0 {
			do(&sop{kind: "dl", c: c, t: []int64{0, 4102444800}[g.r.Intn(2)]})
			do(&sop{kind: "rdconn", c: c})
		}
		if prof.changes && !intx[c] && g.r.Intn(4) == 0 {
			do(&sop{kind: "version", c: c})
			if len(w.versions) >= 1 {
				from := w.versions[g.r.Intn(len(w.versions))]
				to := w.versions[g.r.Intn(len(w.versions))]
				if g.r.Intn(6) == 0 {
					from = []string{}
				}
				do(&sop{kind: "changes", c: c, from: from, to: to})
			}
		}
		if prof.retries && len(w.writes) > 0 && g.r.Intn(6) == 0 && !autoTx[c] {
			// retry of an earlier statement, same write time and values, on any writer
			old := w.writes[g.r.Intn(len(w.writes))]
			rc := g.r.Intn(nconn)
			do(&sop{kind: "wt", c: rc, t: old.t})
			re := *old.op
			re.c = rc
			do(&re)
			stats["retry"]++
		}
		if prof.roReader && g.r.Intn(4) == 0 {
			rc := nconn
			switch g.r.Intn(9) {
			case 0:
				do(&sop{kind: "refresh", c: rc})
			case 1:
				do(&sop{kind: "version", c: rc})
			case 2:
				do(&sop{kind: "wt", c: rc, t: nextT()})
				do(&sop{kind: "ins", c: rc, key: key(), vals: nullVals(ncols)})
			case 3:
				do(&sop{kind: "wt", c: rc, t: nextT()})
				do(&sop{kind: "del", c: rc, key: key()})
			case 4:
				m := make([]bool, ncols)
				m[0] = true
				do(&sop{kind: "wt", c: rc, t: nextT()})
				do(&sop{kind: "upd", c: rc, key: key(), vals: nullVals(ncols), mask: m})
			case 5:
				// a read-only table over the writers' unmerged versions holds a dirty in-memory merge:
				// nothing of it may reach the bucket, also not through a vacuum attempt
				do(&sop{kind: "refresh", c: rc})
				do(&sop{kind: "vacuum", c: rc, before: []int64{946684800, 4102444800}[g.r.Intn(2)]})
			case 6:
				if len(w.versions) > 0 {
					do(&sop{kind: "changes", c: rc, from: []string{}, to: w.versions[g.r.Intn(len(w.versions))]})
				}
			default:
				do(&sop{kind: "sel", c: rc, desc: g.r.Intn(2) == 0})
			}
		}
	}
	for c := 0; c < nconn; c++ {
		if intx[c] {
			do(&sop{kind: "commit", c: c})
		}
	}
	if prof.changes && !prof.vacuum && len(w.versions) >= 2 && g.r.Intn(2) == 0 {
		// versions that a vacuum has deleted: a diff that names one of them must fail, not answer
		// from the part it can still read
		for c := 0; c < nconn; c++ {
			do(&sop{kind: "refresh", c: c})
		}
		do(&sop{kind: "wt", c: 0, t: nextT()})
		do(&sop{kind: "ins", c: 0, key: sval{tag: 'I', i: 777}, vals: nullVals(ncols)})
		do(&sop{kind: "vacuum", c: 0, before: 4102444800})
		for c := 1; c < nconn; c++ {
			do(&sop{kind: "refresh", c: c})
		}
		do(&sop{kind: "version", c: 0})
		cur := w.versions[len(w.versions)-1]
		for i := 0; i < 3 && i < len(w.versions)-1; i++ {
			old := w.versions[g.r.Intn(len(w.versions)-1)]
			do(&sop{kind: "changes", c: 0, from: old, to: cur})
			do(&sop{kind: "changes", c: 0, from: cur, to: old})
		}
		stats["script_changes_after_vacuum"]++
	}
	// final convergence view: every writer refreshes twice, then a fresh read-only reader
	if nconn > 1 {
		for r := 0; r < 2; r++ {
			for c := 0; c < nconn; c++ {
				do(&sop{kind: "refresh", c: c})
			}
		}
		for c := 0; c < nconn; c++ {
			do(&sop{kind: "sel", c: c})
		}
		do(&sop{kind: "conn", c: nconn})
		do(&sop{kind: "create", c: nconn, ro: true})
		do(&sop{kind: "sel", c: nconn})
	} else if prof.faults {
		// what the writer was told is committed is what a fresh reader finds
		do(&sop{kind: "sel", c: 0})
		prof.faults = false
		do(&sop{kind: "conn", c: 1})
		do(&sop{kind: "create", c: 1, ro: true})
		do(&sop{kind: "sel", c: 1})
		do(&sop{kind: "sel", c: 1, desc: false, cons: []scon{{op: "ge", v: sval{tag: 'I', i: 0}}}})
	}
	return w.finish()
}

// runL2T: the threaded level (C19).  Batches of m independent worlds — each with its own
// connections, tables, bucket and storage proxy — run their statement programs CONCURRENTLY on
// m goroutines (database/sql pins each connection's statements to OS threads as it likes);
// every world's outcome is compared with the model run on that world alone.  Built with -race.
func runL2T(seed int64, n int, dir string) error {
	perWorldProxy = true
	cf, err := os.Create(dir + "/cases.txt")
	if err != nil {
		return err
	}
	defer cf.Close()
	jf, err := os.Create(dir + "/impl.txt")
	if err != nil {
		return err
	}
	defer jf.Close()
	cw, iw := bufio.NewWriter(cf), bufio.NewWriter(jf)
	defer cw.Flush()
	defer iw.Flush()
	total := map[string]int{}
	// first of all (the process-wide in-memory bucket does not exist yet): connections that use the
	// default in-memory bucket at the same moment must end up on ONE bucket
	fmt.Fprintf(cw, "0 probe in-memory-bucket-first-use\n")
	fmt.Fprintf(iw, "0 %s\n", probeInMemoryBucket())
	const m = 4
	id := 0
	for batch := 0; id < n; batch++ {
		type res struct {
			in, out string
			stats   map[string]int
		}
		results := make([]res, m)
		var wg sync.WaitGroup
		for t := 0; t < m; t++ {
			wg.Add(1)
			go func(t int) {
				defer wg.Done()
				g := &gen{r: rand.New(rand.NewSource(seed*1000003 + int64(batch*m+t)))}
				var prof l2profile
				switch g.r.Intn(4) {
				case 0:
					prof = l2profile{writers: 1, native: true, monotone: true, tx: true, connAttrs: true}
				case 1:
					prof = l2profile{writers: 1 + g.r.Intn(2), tx: true, retries: true, connAttrs: true, autoTime: true, fullMask: true}
				case 2:
					prof = l2profile{writers: 1 + g.r.Intn(2), vacuum: true}
				default:
					prof = l2profile{writers: 2, tx: g.r.Intn(3) == 0, fullMask: true}
				}
				st := map[string]int{}
				in, out := runL2History(g, prof, 8+g.r.Intn(24), st)
				results[t] = res{in, out, st}
			}(t)
		}
		wg.Wait()
		for t := 0; t < m && id < n; t++ {
			id++
			fmt.Fprintf(cw, "%d sqlhist%s\n", id, results[t].in)
			fmt.Fprintf(iw, "%d%s\n", id, results[t].out)
			for k, v := range results[t].stats {
				total[k] += v
			}
			total["hist_threaded"]++
		}
	}
	id++
	fmt.Fprintf(cw, "%d probe refused-create-leaves-the-other-connections-table\n", id)
	fmt.Fprintf(iw, "%d %s\n", id, probeRefusedCreateLeavesOtherTable())
	total["probe_refused_create"]++
	for k := 0; k < 2; k++ {
		id++
		fmt.Fprintf(cw, "%d probe stalled-endpoint\n", id)
		fmt.Fprintf(iw, "%d %s\n", id, probeStall())
		total["probe_stall"]++
	}
	sf, _ := os.Create(dir + "/stats.txt")
	defer sf.Close()
	keys := make([]string, 0, len(total))
	for k := range total {
		keys = append(keys, k)
	}
	sort.Strings(keys)
	for _, k := range keys {
		fmt.Fprintf(sf, "%s %d\n", k, total[k])
	}
	return nil
}

func runL2(seed int64, n int, dir string, profName string) error {
	g := &gen{r: rand.New(rand.NewSource(seed))}
	cf, err := os.Create(dir + "/cases.txt")
	if err != nil {
		return err
	}
	if profName == "deadline" {
		// no histories: the deadline probes alone (C14)
		defer cf.Close()
		jf, err := os.Create(dir + "/impl.txt")
		if err != nil {
			return err
		}
		defer jf.Close()
		for i, cl := range deadlineClasses {
			fmt.Fprintf(cf, "%d probe deadline-bounds-a-statement-stalled-on-%s\n", i+1, cl)
			fmt.Fprintf(jf, "%d %s\n", i+1, probeDeadline(cl))
		}
		fmt.Fprintf(cf, "%d probe scan-with-one-failing-read-fails-or-is-complete\n", len(deadlineClasses)+1)
		fmt.Fprintf(jf, "%d %s\n", len(deadlineClasses)+1, probeScanUnderReadFault())
		sf, _ := os.Create(dir + "/stats.txt")
		defer sf.Close()
		fmt.Fprintf(sf, "probe_scan_under_read_fault 1\n")
		fmt.Fprintf(sf, "probe_deadline %d\n", len(deadlineClasses))
		ef, _ := os.Create(dir + "/errors.txt")
		ef.Close()
		return nil
	}
	defer cf.Close()
	jf, err := os.Create(dir + "/impl.txt")
	if err != nil {
		return err
	}
	defer jf.Close()
	cw, iw := bufio.NewWriter(cf), bufio.NewWriter(jf)
	defer cw.Flush()
	defer iw.Flush()
	stats := map[string]int{}
	for c := 1; c <= n; c++ {
		var prof l2profile
		switch profName {
		case "single":
			prof = l2profile{writers: 1, native: true, monotone: true, tx: g.r.Intn(2) == 0, allClasses: true}
		case "multi":
			prof = l2profile{writers: 2 + g.r.Intn(2), tx: g.r.Intn(3) == 0, fullMask: g.r.Intn(2) == 0}
		case "vacuum":
			prof = l2profile{writers: 1 + g.r.Intn(2), vacuum: true}
		case "conn":
			prof = l2profile{writers: 1 + g.r.Intn(2), tx: true, retries: true, connAttrs: true, autoTime: true, fullMask: true}
		case "tx":
			prof = l2profile{writers: 1, native: true, monotone: true, tx: true, connAttrs: true}
		case "cachemix":
			prof = l2profile{writers: 3, vacuum: true, cacheStory: true}
		case "faults":
			prof = l2profile{writers: 1, native: true, monotone: true, tx: g.r.Intn(3) != 0, faults: true, vacuum: g.r.Intn(2) == 0}
		case "ro":
			prof = l2profile{writers: 1 + g.r.Intn(2), roReader: true, changes: true, vacuum: g.r.Intn(2) == 0}
		case "changes":
			prof = l2profile{writers: 1 + g.r.Intn(2), changes: true, fullMask: true}
		default:
			return fmt.Errorf("unknown profile %s", profName)
		}
		in, out := runL2History(g, prof, 8+g.r.Intn(30), stats)
		fmt.Fprintf(cw, "%d sqlhist%s\n", c, in)
		fmt.Fprintf(iw, "%d%s\n", c, out)
		stats["hist_"+profName]++
	}
	if profName == "ro" {
		fmt.Fprintf(cw, "%d probe every-spelling-of-readonly-never-writes\n", n+1)
		fmt.Fprintf(iw, "%d %s\n", n+1, probeReadonlySpellings())
		stats["probe_readonly_spellings"]++
		fmt.Fprintf(cw, "%d probe read-only-table-after-a-write-that-matches-no-row\n", n+2)
		fmt.Fprintf(iw, "%d %s\n", n+2, probeReadonlyAfterEmptyWrite())
		stats["probe_readonly_empty_write"]++
	}
	if profName == "single" {
		fmt.Fprintf(cw, "%d probe invalid-utf8-text-is-refused\n", n+1)
		fmt.Fprintf(iw, "%d %s\n", n+1, probeInvalidText())
		stats["probe_invalid_text"]++
	}
	if profName == "multi" {
		fmt.Fprintf(cw, "%d probe write-times-before-1970\n", n+3)
		fmt.Fprintf(iw, "%d %s\n", n+3, probeBackdated())
		stats["probe_backdated"]++
	}
	if profName == "changes" {
		fmt.Fprintf(cw, "%d probe changes-table-follows-the-current-version\n", n+1)
		fmt.Fprintf(iw, "%d %s\n", n+1, probeChangesFollowsCurrent())
		stats["probe_changes_follows_current"]++
	}
	if profName == "multi" || profName == "conn" {
		fmt.Fprintf(cw, "%d probe subsecond-write-time\n", n+1)
		fmt.Fprintf(iw, "%d %s\n", n+1, probeSubsecondWriteTime())
		stats["probe_subsecond"]++
	}
	if profName == "conn" {
		fmt.Fprintf(cw, "%d probe drop-table-keeps-connection-attributes\n", n+2)
		fmt.Fprintf(iw, "%d %s\n", n+2, probeDropKeepsAttributes())
		stats["probe_drop_keeps_attributes"]++
	}
	if profName == "vacuum" {
		fmt.Fprintf(cw, "%d probe vacuum-reclaims-every-expired-marker\n", n+1)
		fmt.Fprintf(iw, "%d %s\n", n+1, probeVacuumReclaims())
		stats["probe_vacuum_reclaims"]++
		for i, kind := range []string{"version", "node"} {
			fmt.Fprintf(cw, "%d probe vacuum-while-the-other-writers-%s-cannot-be-read\n", n+2+i, kind)
			fmt.Fprintf(iw, "%d %s\n", n+2+i, probeVacuumUnderReadFault(kind))
			stats["probe_vacuum_read_fault"]++
		}
	}
	if profName == "tx" {
		id := n + 10
		for _, fn := range []string{"refresh", "vacuum"} {
			for _, commit := range []bool{true, false} {
				id++
				end := map[bool]string{true: "commit", false: "rollback"}[commit]
				fmt.Fprintf(cw, "%d probe s3db_%s-inside-a-transaction-then-%s\n", id, fn, end)
				fmt.Fprintf(iw, "%d %s\n", id, probeFunctionInsideTransaction(fn, commit))
				stats["probe_function_inside_tx"]++
			}
		}
		for k := 0; k < 3; k++ {
			fmt.Fprintf(cw, "%d probe tx-time-two-tables\n", n+1+k)
			fmt.Fprintf(iw, "%d %s\n", n+1+k, probeTxTime())
			stats["probe_txtime"]++
		}
	}
	sf, _ := os.Create(dir + "/stats.txt")
	defer sf.Close()
	keys := make([]string, 0, len(stats))
	for k := range stats {
		keys = append(keys, k)
	}
	sort.Strings(keys)
	for _, k := range keys {
		fmt.Fprintf(sf, "%s %d\n", k, stats[k])
	}
	ef, _ := os.Create(dir + "/errors.txt")
	defer ef.Close()
	for k, v := range errSeen {
		fmt.Fprintf(ef, "%d %s\n", v, strings.ReplaceAll(k, "\n", " "))
	}
	return nil
}

var opNames = map[string]bool{"eq": true, "lt": true, "le": true, "ge": true, "gt": true}

func replaySQL(r *tr) (string, string) {
	ncols, epn, cache, nops := r.i(), r.i(), r.i(), r.i()
	w := newL2World(ncols, epn, cache, true)
	stats := map[string]int{}
	var pendingFault *l2fault
	for j := 0; j < nops; j++ {
		op := &sop{kind: r.next()}
		if op.kind == "F" {
			pendingFault = &l2fault{on: r.next(), k: r.i()}
			r.i()
			continue
		}
		op.flt, pendingFault = pendingFault, nil
		switch op.kind {
		case "conn":
			op.c = r.i()
		case "create":
			op.c, op.ro = r.i(), r.b()
			r.names()
			r.names()
		case "wt":
			op.c, op.t = r.i(), r.z()
		case "ins":
			op.c, op.key = r.i(), r.sval()
			n := r.i()
			for k := 0; k < n; k++ {
				op.vals = append(op.vals, r.sval())
			}
			r.names()
		case "upd":
			op.c, op.key = r.i(), r.sval()
			n := r.i()
			for k := 0; k < n; k++ {
				if r.next() == "_" {
					op.mask = append(op.mask, false)
					op.vals = append(op.vals, sval{tag: 'N'})
				} else {
					op.mask = append(op.mask, true)
					op.vals = append(op.vals, r.sval())
				}
			}
			r.names()
		case "del":
			op.c, op.key = r.i(), r.sval()
			r.names()
		case "sel", "selnk":
			op.c, op.desc = r.i(), r.b()
			n := r.i()
			for k := 0; k < n; k++ {
				op.cons = append(op.cons, scon{op: r.next(), v: r.sval()})
			}
			op.limit = r.i()
			if op.kind == "selnk" {
				op.col, op.nkval = r.i(), r.sval()
			}
		case "begin", "commit", "rollback":
			op.c = r.i()
			r.names()
		case "refresh":
			op.c = r.i()
			r.names()
			r.names()
		case "version", "rdconn":
			op.c = r.i()
		case "selo":
			op.c, op.col, op.desc = r.i(), r.i(), r.b()
		case "dl":
			op.c, op.t = r.i(), r.z()
		case "changes":
			op.c = r.i()
			op.from = r.names()
			op.to = r.names()
			if op.from == nil {
				op.from = []string{}
			}
			if op.to == nil {
				op.to = []string{}
			}
		case "vacuum":
			op.c, op.before = r.i(), r.z()
			r.names()
			r.names()
			r.names()
		default:
			panic("replay: unknown sql op " + op.kind)
		}
		w.exec(op, stats)
	}
	return w.finish()
}

// reachability: every version object under root/current and root/merged decodes and every
// node it reaches exists and decodes (walk of the whole bucket through the backend)
// reachability walks the version objects and checks that every node they refer to exists and
// decodes. currentOnly: the vacuum's cutoff covers every version (they are all older), so only
// the versions under current/ are retained versions; superseded ones left under merged/ by a
// vacuum that did not have them in its ancestry may lose nodes ("until a vacuum whose cutoff
// covers them").
func (w *l2world) reachability(currentOnly bool) string {
	pfx := w.prefix + "/s3db-rows/"
	get := func(key string) ([]byte, bool) {
		obj, err := w.px.backend.GetObject(w.bucket, key, nil)
		if err != nil {
			return nil, false
		}
		defer obj.Contents.Close()
		b, err := io.ReadAll(obj.Contents)
		return b, err == nil
	}
	list := func(sub string) []string {
		p := gofakes3.NewPrefix(aws.String(pfx+sub), nil)
		ol, err := w.px.backend.ListBucket(w.bucket, &p, gofakes3.ListBucketPage{})
		if err != nil {
			return nil
		}
		var keys []string
		for _, c := range ol.Contents {
			keys = append(keys, c.Key)
		}
		return keys
	}
	missing := 0
	var walk func(link string) bool
	seen := map[string]bool{}
	walk = func(link string) bool {
		if seen[link] {
			return true
		}
		seen[link] = true
		b, ok := get(pfx + "node/" + link)
		if !ok {
			return false
		}
		var n mast.Node
		if err := s3db.VerifUnmarshalNode(b, &n); err != nil {
			return false
		}
		for _, l := range n.Link {
			if ls, ok := l.(string); ok && ls != "" {
				if !walk(ls) {
					return false
				}
			}
		}
		return true
	}
	subs := []string{"root/current/", "root/merged/"}
	if currentOnly {
		subs = subs[:1]
	}
	for _, sub := range subs {
		for _, k := range list(sub) {
			b, ok := get(k)
			if !ok {
				missing++
				continue
			}
			var root struct {
				Link *string
			}
			if err := json.Unmarshal(b, &root); err != nil {
				missing++
				continue
			}
			if root.Link != nil && !walk(*root.Link) {
				missing++
			}
		}
	}
	if missing == 0 {
		return "ok"
	}
	return "missing:" + strconv.Itoa(missing)
}

func nullVals(n int) []sval {
	v := make([]sval, n)
	for i := range v {
		v[i] = sval{tag: 'N'}
	}
	return v
}
