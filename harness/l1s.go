//go:build verif

package main

// L1 scheduled concurrency (C03): several clients (read-only opener, read-write opener,
// writer = open + set + commit) run against ONE in-process bucket; every object-store request
// of every client waits at a gate, and a scheduler lets exactly one request through at a
// time, in the order given by a generated schedule (a list of client indices; an entry naming
// a finished client is skipped).  Between two gates only one goroutine runs, so a run is
// determined by its schedule.  The same schedule is replayed on the Coq model (Sched.v).
//
// Names: the k-th distinct object PUT (node or version) is named k — this is the name the
// model's naming table gives it, so version lists can be passed to the model before the
// versions exist.

import (
	"bufio"
	"context"
	"fmt"
	"math/rand"
	"os"
	"sort"
	"strings"
	"time"

	"github.com/aws/aws-sdk-go/aws"
	"github.com/aws/aws-sdk-go/aws/request"
	"github.com/aws/aws-sdk-go/service/s3"
	"github.com/jrhy/s3db/kv"
)

type gateS3 struct {
	st  *fakeS3
	cl  *schedClient
	wld *schedWorld
}

type schedClient struct {
	id     int
	kind   string // R, M, W
	key    int64
	val    int64
	when   int64
	ow     int64
	reqCh  chan struct{}
	goCh   chan struct{}
	doneCh chan struct{}
	log    []reqRec
	start  int
	end    int
	out    string
	status string
	gated  bool
}

type schedWorld struct {
	st    *fakeS3
	names map[string]int // raw object name -> model name (order of first PUT)
	step  int
	cur   *schedClient
}

func (w *schedWorld) name(raw string) int {
	if n, ok := w.names[raw]; ok {
		return n
	}
	return -1
}

func (w *schedWorld) notePut(key string) {
	cl, nm := classify(key)
	if cl == "?" {
		return
	}
	if _, ok := w.names[nm]; !ok {
		w.names[nm] = len(w.names) + 1
	}
}

func (g *gateS3) gate(kind, key string) {
	c := g.cl
	c.log = append(c.log, reqRec{kind: kind, key: key, ok: true})
	if cl, _ := classify(key); kind == "G" && cl == "n" {
		// reads of node objects are not scheduling points: nodes are immutable, content-addressed
		// and never deleted at this level, so such a read commutes with every other client's steps
		return
	}
	if c.gated {
		c.reqCh <- struct{}{}
		<-c.goCh
	}
	if c.start < 0 {
		c.start = g.wld.step
	}
	c.end = g.wld.step
	g.wld.step++
	if kind == "P" {
		g.wld.notePut(key)
	}
}

func (g *gateS3) DeleteObjectWithContext(ctx aws.Context, in *s3.DeleteObjectInput, o ...request.Option) (*s3.DeleteObjectOutput, error) {
	g.gate("D", *in.Key)
	return g.st.DeleteObjectWithContext(ctx, in, o...)
}
func (g *gateS3) GetObjectWithContext(ctx aws.Context, in *s3.GetObjectInput, o ...request.Option) (*s3.GetObjectOutput, error) {
	g.gate("G", *in.Key)
	return g.st.GetObjectWithContext(ctx, in, o...)
}
func (g *gateS3) ListObjectsV2WithContext(ctx aws.Context, in *s3.ListObjectsV2Input, o ...request.Option) (*s3.ListObjectsV2Output, error) {
	g.gate("L", *in.Prefix)
	return g.st.ListObjectsV2WithContext(ctx, in, o...)
}
func (g *gateS3) PutObjectWithContext(ctx aws.Context, in *s3.PutObjectInput, o ...request.Option) (*s3.PutObjectOutput, error) {
	g.gate("P", *in.Key)
	return g.st.PutObjectWithContext(ctx, in, o...)
}

func schedCfg(bf int) kv.Config {
	return kv.Config{
		Storage:      &kv.S3BucketInfo{EndpointURL: "fake", BucketName: "b", Prefix: l1Prefix},
		KeysLike:     1234,
		ValuesLike:   "hi",
		BranchFactor: uint(bf),
	}
}

func dumpPlain(db *kv.DB) (string, error) {
	ctx := context.Background()
	c, err := db.Cursor(ctx)
	if err != nil {
		return "", err
	}
	if err = c.Min(ctx); err != nil {
		return "", err
	}
	var sub tw
	n := 0
	for {
		k, v, ok := c.Get()
		if !ok {
			break
		}
		n++
		sub.sval(sval{tag: 'I', i: int64(k.(int))})
		sub.z(v.ModEpochNanos)
		if id, ok := plainID(v.Value); ok {
			sub.s("S")
			sub.z(id)
		} else {
			sub.s("_")
		}
		if err = c.Forward(ctx); err != nil {
			return "", err
		}
	}
	var o tw
	o.i(n)
	return o.String() + sub.String(), nil
}

// the client's whole operation; every storage request goes through its gate
func (c *schedClient) run(w *schedWorld, bf int) {
	defer close(c.doneCh)
	defer func() {
		if r := recover(); r != nil {
			c.status = "panic"
		}
	}()
	ctx := context.Background()
	s3i := &gateS3{st: w.st, cl: c, wld: w}
	db, err := kv.Open(ctx, s3i, schedCfg(bf), kv.OpenOptions{ReadOnly: c.kind == "R"}, time.Unix(0, c.ow))
	if err != nil {
		c.status = "err"
		return
	}
	if c.kind == "W" {
		if err = db.Set(ctx, time.Unix(0, c.when), int(c.key), plainVal(c.val)); err != nil {
			c.status = "err"
			return
		}
		if _, err = db.Commit(ctx); err != nil {
			c.status = "err"
			return
		}
	}
	d, err := dumpPlain(db)
	if err != nil {
		c.status = "err"
		return
	}
	c.status = "ok"
	c.out = d
}

// version names in the order the client first fetched them, and in the order it retired them
func (c *schedClient) orders(w *schedWorld) (get, retire []int) {
	seen := map[string]bool{}
	for _, r := range c.log {
		cl, nm := classify(r.key)
		if r.kind == "G" && (cl == "c" || cl == "m") && !seen[nm] {
			seen[nm] = true
			get = append(get, w.name(nm))
		}
		if r.kind == "P" && cl == "m" {
			retire = append(retire, w.name(nm))
		}
	}
	return
}

func runSchedCase(g *gen, id int, stats map[string]int, fixed *schedFixed) (string, string) {
	bf := []int{16, 4096}[g.r.Intn(2)] // no key of this level is a multiple of the branch factor: one node per tree
	w := &schedWorld{st: newFakeS3(), names: map[string]int{}}
	// a listing is ONE request at this level (the model's assumption: fewer versions under current/
	// than one listing page holds, 1000 in S3); a listing that takes several pages is not atomic
	// and is exercised only in the sequential histories
	w.st.pageSize = 0
	var in tw
	in.s("plain")
	in.i(bf)
	ctx := context.Background()
	base := int64(1700000000000000000)
	// ---- setup (sequential, ungated)
	nsetup := 1 + g.r.Intn(3)
	merge := g.r.Intn(3) == 0
	if fixed != nil {
		nsetup, merge = fixed.nsetup, fixed.merge
	}
	in.i(nsetup)
	setupC := &schedClient{id: -1, start: 0}
	s3i := &gateS3{st: w.st, cl: setupC, wld: w}
	var dbs []*kv.DB
	for i := 0; i < nsetup; i++ {
		db, err := kv.Open(ctx, s3i, schedCfg(bf), kv.OpenOptions{}, time.Unix(0, base))
		if err != nil {
			panic(err)
		}
		dbs = append(dbs, db)
	}
	for i, db := range dbs {
		k, v, t := int64(100+i), int64(i), base+int64(10+i)
		in.z(k)
		in.z(v)
		in.z(t)
		if err := db.Set(ctx, time.Unix(0, t), int(k), plainVal(v)); err != nil {
			panic(err)
		}
		if _, err := db.Commit(ctx); err != nil {
			panic(err)
		}
	}
	in.b(merge)
	if merge {
		setupC.log = nil
		rand.Seed(int64(id)*7919 + 1)
		if _, err := kv.Open(ctx, s3i, schedCfg(bf), kv.OpenOptions{}, time.Unix(0, base)); err != nil {
			panic(err)
		}
		get, ret := setupC.orders(w)
		in.i(len(get))
		for _, n := range get {
			in.i(n)
		}
		in.i(len(ret))
		for _, n := range ret {
			in.i(n)
		}
	}
	w.step = 0
	// ---- clients
	nclients := 2 + g.r.Intn(2)
	kinds := make([]string, nclients)
	for i := range kinds {
		kinds[i] = []string{"R", "W", "W", "M"}[g.r.Intn(4)]
	}
	if fixed != nil {
		kinds = fixed.kinds
		nclients = len(kinds)
	}
	var cs []*schedClient
	for i := 0; i < nclients; i++ {
		c := &schedClient{id: i, kind: kinds[i], key: int64(200 + i), val: int64(50 + i), when: base + int64(100+i), ow: base + int64(1000+i),
			reqCh: make(chan struct{}), goCh: make(chan struct{}), doneCh: make(chan struct{}), start: -1, end: -1, gated: true}
		cs = append(cs, c)
		stats["sched_client_"+c.kind]++
	}
	// ---- schedule: random prefix, then every client drained in index order
	var sched []int
	if fixed != nil {
		sched = append(sched, fixed.sched...)
	} else {
		n := 4 + g.r.Intn(40)
		// bursts make "one client completes a whole commit between two requests of another" likely
		for len(sched) < n {
			c := g.r.Intn(nclients)
			for k := 1 + g.r.Intn(6); k > 0; k-- {
				sched = append(sched, c)
			}
		}
	}
	for i := 0; i < nclients; i++ {
		for k := 0; k < 48; k++ {
			sched = append(sched, i)
		}
	}
	// ---- run
	finished := make([]bool, nclients)
	waitGate := func(c *schedClient) {
		select {
		case <-c.reqCh:
		case <-c.doneCh:
			finished[c.id] = true
		}
	}
	rand.Seed(int64(id)*104729 + 7)
	for _, c := range cs {
		go c.run(w, bf)
		waitGate(c)
	}
	for _, i := range sched {
		if finished[i] {
			continue
		}
		c := cs[i]
		c.goCh <- struct{}{}
		waitGate(c)
	}
	for i, f := range finished {
		if !f {
			// release it so the goroutine ends; the case is reported as unfinished
			cs[i].gated = false
			go func(c *schedClient) {
				for {
					select {
					case c.goCh <- struct{}{}:
					case <-c.doneCh:
						return
					}
				}
			}(cs[i])
			<-cs[i].doneCh
			cs[i].status = "unfinished"
		}
	}
	if os.Getenv("VERIF_TRACE") != "" {
		for _, c := range cs {
			fmt.Fprintf(os.Stderr, "client %d %s:", c.id, c.kind)
			for _, r := range c.log {
				cl, nm := classify(r.key)
				fmt.Fprintf(os.Stderr, " %s%s%d", r.kind, cl, w.name(nm))
			}
			fmt.Fprintln(os.Stderr)
		}
	}
	// ---- inputs for the model (names exist now) and outputs
	in.i(nclients)
	var out tw
	for _, c := range cs {
		get, ret := c.orders(w)
		in.s(c.kind)
		in.z(c.key)
		in.z(c.val)
		in.z(c.when)
		in.z(c.ow)
		in.i(len(get))
		for _, n := range get {
			in.i(n)
		}
		in.i(len(ret))
		for _, n := range ret {
			in.i(n)
		}
		out.s(";")
		out.s(fmt.Sprintf("C%d", c.id))
		out.s(c.status)
		if c.status == "ok" || c.status == "err" {
			out.i(c.start)
			out.i(c.end)
		}
		if c.status == "ok" {
			out.sb.WriteString(c.out)
		}
		stats["sched_status_"+c.status]++
	}
	in.i(len(sched))
	for _, i := range sched {
		in.i(i)
	}
	list := func(pfx string) []int {
		var l []int
		for _, k := range w.st.keys(l1Prefix + "/root/" + pfx + "/") {
			l = append(l, w.name(k))
		}
		sort.Ints(l)
		return l
	}
	for _, p := range []struct{ tag, pfx string }{{"cur", "current"}, {"mrg", "merged"}} {
		out.s(";")
		out.s(p.tag)
		l := list(p.pfx)
		out.i(len(l))
		for _, n := range l {
			out.i(n)
		}
	}
	out.s(";")
	out.s("F")
	fin := &schedClient{id: -2}
	fdb, err := kv.Open(ctx, &gateS3{st: w.st, cl: fin, wld: w}, schedCfg(bf), kv.OpenOptions{ReadOnly: true}, time.Unix(0, base))
	if err != nil {
		out.s("err")
	} else if d, err := dumpPlain(fdb); err != nil {
		out.s("err")
	} else {
		out.s("ok")
		out.sb.WriteString(d)
	}
	// how many opens lost a listed version to a concurrent retire (GET current/x answered NoSuchKey)
	return in.String(), out.String()
}

type schedFixed struct {
	nsetup int
	merge  bool
	kinds  []string
	sched  []int
}

func runL1S(seed int64, n int, dir string) error {
	g := &gen{r: rand.New(rand.NewSource(seed))}
	cf, err := os.Create(dir + "/cases.txt")
	if err != nil {
		return err
	}
	defer cf.Close()
	jf, err := os.Create(dir + "/impl.txt")
	if err != nil {
		return err
	}
	defer jf.Close()
	cw, iw := bufio.NewWriter(cf), bufio.NewWriter(jf)
	defer cw.Flush()
	defer iw.Flush()
	stats := map[string]int{}
	for id := 1; id <= n; id++ {
		in, out := runSchedCase(g, id, stats, nil)
		fmt.Fprintf(cw, "%d schedhist%s\n", id, in)
		fmt.Fprintf(iw, "%d%s\n", id, out)
	}
	sf, _ := os.Create(dir + "/stats.txt")
	defer sf.Close()
	keys := make([]string, 0, len(stats))
	for k := range stats {
		keys = append(keys, k)
	}
	sort.Strings(keys)
	for _, k := range keys {
		fmt.Fprintf(sf, "%s %d\n", k, stats[k])
	}
	return nil
}

// replay of a recorded schedhist case: setup shape, client kinds and the schedule are taken
// from the case line; names/orders are recomputed from the run
func replaySched(r *tr, id int) (string, string) {
	r.next() // mode
	r.i()    // bf (regenerated)
	f := &schedFixed{}
	f.nsetup = r.i()
	for i := 0; i < f.nsetup; i++ {
		r.z()
		r.z()
		r.z()
	}
	f.merge = r.b()
	if f.merge {
		for k := r.i(); k > 0; k-- {
			r.i()
		}
		for k := r.i(); k > 0; k-- {
			r.i()
		}
	}
	nc := r.i()
	for i := 0; i < nc; i++ {
		f.kinds = append(f.kinds, r.next())
		r.z()
		r.z()
		r.z()
		r.z()
		for k := r.i(); k > 0; k-- {
			r.i()
		}
		for k := r.i(); k > 0; k-- {
			r.i()
		}
	}
	ns := r.i()
	for i := 0; i < ns; i++ {
		f.sched = append(f.sched, r.i())
	}
	// the recorded schedule already ends with the drain tail: strip it (it is appended again)
	tail := nc * 48
	if len(f.sched) >= tail {
		f.sched = f.sched[:len(f.sched)-tail]
	}
	g := &gen{r: rand.New(rand.NewSource(int64(id)))}
	return runSchedCase(g, id, map[string]int{}, f)
}

var _ = strings.TrimSpace
