//go:build verif

package main

// Property probes: scenarios that are checked on the implementation alone (the oracle answers
// "ok"): the behaviour they look at lies outside the executable model (wall-clock stalls, the
// write times of two tables in one SQLite transaction, plaintext in stored bytes).

import (
	"bytes"
	"context"
	"database/sql"
	"encoding/json"
	"fmt"
	"io"
	"sort"
	"strings"
	"sync"
	"time"

	"github.com/aws/aws-sdk-go/aws"
	"github.com/johannesboyne/gofakes3"
	"github.com/jrhy/mast"
	"github.com/jrhy/s3db"
	"github.com/jrhy/s3db/kv"
	"github.com/jrhy/s3db/kv/crdt"
)

// C19: a connection whose storage endpoint is stalled must not stall another connection
func probeStall() string {
	pa, pb := newProxy(), newProxy()
	pa.hold = make(chan struct{})
	for _, p := range []*s3proxy{pa, pb} {
		if err := p.backend.CreateBucket("pb"); err != nil {
			return "FAIL setup: " + err.Error()
		}
	}
	doneA := make(chan error, 1)
	go func() {
		db, err := sql.Open("sqlite3", ":memory:")
		if err != nil {
			doneA <- err
			return
		}
		defer db.Close()
		db.SetMaxOpenConns(1)
		_, err = db.Exec(fmt.Sprintf("create virtual table stall_a%d using s3db(s3_bucket='pb', s3_endpoint='%s', s3_prefix='a', columns='k primary key, v')", nextCounter(), pa.url))
		doneA <- err
	}()
	time.Sleep(200 * time.Millisecond) // A is now waiting for its endpoint
	doneB := make(chan error, 1)
	go func() {
		db, err := sql.Open("sqlite3", ":memory:")
		if err != nil {
			doneB <- err
			return
		}
		defer db.Close()
		db.SetMaxOpenConns(1)
		t := fmt.Sprintf("stall_b%d", nextCounter())
		if _, err = db.Exec(fmt.Sprintf("create virtual table %s using s3db(s3_bucket='pb', s3_endpoint='%s', s3_prefix='b', columns='k primary key, v')", t, pb.url)); err != nil {
			doneB <- err
			return
		}
		if _, err = db.Exec(fmt.Sprintf("insert into %s values(1,2)", t)); err != nil {
			doneB <- err
			return
		}
		var n int
		doneB <- db.QueryRow(fmt.Sprintf("select count(*) from %s", t)).Scan(&n)
	}()
	res := "ok"
	select {
	case err := <-doneB:
		if err != nil {
			res = "FAIL connection B: " + err.Error()
		}
	case <-time.After(8 * time.Second):
		res = "FAIL a connection with a healthy endpoint made no progress for 8 s while another connection was waiting for its stalled endpoint"
	}
	close(pa.hold)
	select {
	case <-doneA:
	case <-time.After(20 * time.Second):
	}
	if res != "ok" {
		select {
		case <-doneB:
		case <-time.After(20 * time.Second):
		}
	}
	return res
}

// row write times (ModEpochNanos) of every row of the current version of a table's tree
func rowTimes(px *s3proxy, bucket, prefix string) (map[string]int64, error) {
	pfx := prefix + "/s3db-rows/"
	get := func(key string) ([]byte, error) {
		obj, err := px.backend.GetObject(bucket, key, nil)
		if err != nil {
			return nil, err
		}
		defer obj.Contents.Close()
		return io.ReadAll(obj.Contents)
	}
	p := gofakes3.NewPrefix(aws.String(pfx+"root/current/"), nil)
	ol, err := px.backend.ListBucket(bucket, &p, gofakes3.ListBucketPage{})
	if err != nil {
		return nil, err
	}
	res := map[string]int64{}
	var walk func(link string) error
	walk = func(link string) error {
		b, err := get(pfx + "node/" + link)
		if err != nil {
			return err
		}
		var n mast.Node
		if err := s3db.VerifUnmarshalNode(b, &n); err != nil {
			return err
		}
		for i, k := range n.Key {
			res[fmt.Sprint(svalOfProto(k.(*s3db.Key).SQLiteValue))] = n.Value[i].(crdt.Value).ModEpochNanos
		}
		for _, l := range n.Link {
			if ls, ok := l.(string); ok && ls != "" {
				if err := walk(ls); err != nil {
					return err
				}
			}
		}
		return nil
	}
	for _, c := range ol.Contents {
		b, err := get(c.Key)
		if err != nil {
			return nil, err
		}
		var root struct{ Link *string }
		if err := json.Unmarshal(b, &root); err != nil {
			return nil, err
		}
		if root.Link != nil {
			if err := walk(*root.Link); err != nil {
				return nil, err
			}
		}
	}
	return res, nil
}

// C05: all writes of one transaction carry one write time, also when a second s3db table
// joins the transaction (SQLite calls xBegin once per table, lazily)
func probeTxTime() string {
	px := getProxy()
	bucket := fmt.Sprintf("ptx%d", nextCounter())
	if err := px.backend.CreateBucket(bucket); err != nil {
		return "FAIL setup: " + err.Error()
	}
	db, err := sql.Open("sqlite3", ":memory:")
	if err != nil {
		return "FAIL " + err.Error()
	}
	defer db.Close()
	db.SetMaxOpenConns(1)
	t1, t2 := fmt.Sprintf("ptx_a%d", nextCounter()), fmt.Sprintf("ptx_b%d", nextCounter())
	for i, t := range []string{t1, t2} {
		if _, err := db.Exec(fmt.Sprintf("create virtual table %s using s3db(s3_bucket='%s', s3_endpoint='%s', s3_prefix='t%d', columns='k primary key, v')", t, bucket, px.url, i)); err != nil {
			return "FAIL create: " + err.Error()
		}
	}
	steps := []string{"begin", "insert into " + t1 + " values(1,1)", "insert into " + t2 + " values(1,1)", "insert into " + t1 + " values(2,2)", "commit"}
	for _, s := range steps {
		if _, err := db.Exec(s); err != nil {
			return "FAIL " + s + ": " + err.Error()
		}
		time.Sleep(3 * time.Millisecond)
	}
	a, err := rowTimes(px, bucket, "t0")
	if err != nil {
		return "FAIL read: " + err.Error()
	}
	b, err := rowTimes(px, bucket, "t1")
	if err != nil {
		return "FAIL read: " + err.Error()
	}
	var times []int64
	for _, m := range []map[string]int64{a, b} {
		for _, t := range m {
			times = append(times, t)
		}
	}
	if len(times) != 3 {
		return fmt.Sprintf("FAIL expected 3 rows in the two tables, found %d", len(times))
	}
	for _, t := range times {
		if t != times[0] {
			return fmt.Sprintf("FAIL the three writes of one transaction (two tables) carry different write times: %v", times)
		}
	}
	return "ok"
}

// C18: with a node encryptor configured — for any passphrase, the empty one included — no
// plaintext key or value bytes appear in stored node objects, and a client without the
// passphrase cannot read the table
func probeStoredPlaintext(pass []byte) string {
	st := newFakeS3()
	cfg := kv.Config{
		Storage:       &kv.S3BucketInfo{EndpointURL: "fake", BucketName: "b", Prefix: "enc"},
		KeysLike:      "key",
		ValuesLike:    "value",
		NodeEncryptor: kv.V1NodeEncryptor(pass),
	}
	ctx := context.Background()
	db, err := kv.Open(ctx, st, cfg, kv.OpenOptions{}, time.Unix(1700000000, 0))
	if err != nil {
		return "FAIL open: " + err.Error()
	}
	if err := db.Set(ctx, time.Unix(1700000001, 0), "SECRETKEY-0123456789", "SECRETVALUE-abcdefghij"); err != nil {
		return "FAIL set: " + err.Error()
	}
	if _, err := db.Commit(ctx); err != nil {
		return "FAIL commit: " + err.Error()
	}
	nodes := 0
	for k, v := range st.snapshot() {
		if bytes.Contains([]byte(k), []byte("/node/")) {
			nodes++
			if bytes.Contains(v, []byte("SECRETKEY-0123456789")) || bytes.Contains(v, []byte("SECRETVALUE-abcdefghij")) {
				return fmt.Sprintf("FAIL plaintext key or value bytes appear in a stored node object (passphrase of %d bytes)", len(pass))
			}
		}
	}
	if nodes == 0 {
		return "FAIL no node object was stored"
	}
	plain := cfg
	plain.NodeEncryptor = nil
	if db2, err := kv.Open(ctx, st, plain, kv.OpenOptions{ReadOnly: true}, time.Unix(1700000002, 0)); err == nil {
		var v string
		if ok, err := db2.Get(ctx, "SECRETKEY-0123456789", &v); err == nil && ok {
			return "FAIL a client without the passphrase read the value"
		}
	}
	return "ok"
}

// probeDifferentPassphrase: data written under one passphrase must not be readable under another
// one (also not one that differs only in edge white space or case): Open or Get must fail.
func probeDifferentPassphrase(p1, p2 []byte) string {
	st := newFakeS3()
	cfg := kv.Config{
		Storage:       &kv.S3BucketInfo{EndpointURL: "fake", BucketName: "b", Prefix: "enc"},
		KeysLike:      "key",
		ValuesLike:    "value",
		NodeEncryptor: kv.V1NodeEncryptor(p1),
	}
	ctx := context.Background()
	db, err := kv.Open(ctx, st, cfg, kv.OpenOptions{}, time.Unix(1700000000, 0))
	if err != nil {
		return "FAIL open: " + err.Error()
	}
	if err := db.Set(ctx, time.Unix(1700000001, 0), "k", "SECRETVALUE-abcdefghij"); err != nil {
		return "FAIL set: " + err.Error()
	}
	if _, err := db.Commit(ctx); err != nil {
		return "FAIL commit: " + err.Error()
	}
	other := cfg
	other.NodeEncryptor = kv.V1NodeEncryptor(p2)
	var got string
	ok := false
	panicked := catch(func() {
		if db2, err := kv.Open(ctx, st, other, kv.OpenOptions{ReadOnly: true}, time.Unix(1700000002, 0)); err == nil {
			if found, err := db2.Get(ctx, "k", &got); err == nil && found {
				ok = true
			}
		}
	})
	if panicked {
		return "FAIL reading with a different passphrase panics"
	}
	if ok {
		return fmt.Sprintf("FAIL data written under passphrase %q is returned under passphrase %q: %q", p1, p2, got)
	}
	return "ok"
}

// probeInMemoryBucket (C19): several connections of this process create, at the same moment, their
// own table on the default in-memory bucket (no s3_bucket), each under its own prefix, insert a row
// and commit.  Afterwards every connection refreshes and must still see its row, and one more
// connection opening each prefix read-only must see it too (one bucket for the whole process).
func probeInMemoryBucket() string {
	const n = 8
	conns := make([]*sql.DB, n)
	for i := range conns {
		db, err := sql.Open("sqlite3", ":memory:")
		if err != nil {
			return "FAIL open: " + err.Error()
		}
		db.SetMaxOpenConns(1)
		defer db.Close()
		conns[i] = db
	}
	run := nextCounter()
	start := make(chan struct{})
	errs := make([]error, n)
	var wg sync.WaitGroup
	for i := 0; i < n; i++ {
		wg.Add(1)
		go func(i int) {
			defer wg.Done()
			<-start
			if _, err := conns[i].Exec(fmt.Sprintf("create virtual table im%d_%d using s3db (s3_prefix='im%d_p%d', columns='a primary key, b')", run, i, run, i)); err != nil {
				errs[i] = err
				return
			}
			_, errs[i] = conns[i].Exec(fmt.Sprintf("insert into im%d_%d values (%d, 'row')", run, i, i))
		}(i)
	}
	close(start)
	wg.Wait()
	for i, err := range errs {
		if err != nil {
			return fmt.Sprintf("FAIL connection %d: %v", i, err)
		}
	}
	count := func(db *sql.DB, table string) int {
		var c int
		if err := db.QueryRow("select count(*) from " + table).Scan(&c); err != nil {
			return -1
		}
		return c
	}
	for i := 0; i < n; i++ {
		// (half of the connections re-open their table first: what was committed is in the bucket)
		if i%2 == 1 {
			if _, err := conns[i].Exec(fmt.Sprintf("select s3db_refresh('im%d_%d')", run, i)); err != nil {
				return fmt.Sprintf("FAIL refresh %d: %v", i, err)
			}
		}
		if c := count(conns[i], fmt.Sprintf("im%d_%d", run, i)); c != 1 {
			return fmt.Sprintf("FAIL connection %d sees %d rows of its own committed table (expected 1)", i, c)
		}
	}
	rd, err := sql.Open("sqlite3", ":memory:")
	if err != nil {
		return "FAIL open reader: " + err.Error()
	}
	rd.SetMaxOpenConns(1)
	defer rd.Close()
	for i := 0; i < n; i++ {
		if _, err := rd.Exec(fmt.Sprintf("create virtual table rd%d_%d using s3db (readonly, s3_prefix='im%d_p%d', columns='a primary key, b')", run, i, run, i)); err != nil {
			return fmt.Sprintf("FAIL reader create %d: %v", i, err)
		}
		if c := count(rd, fmt.Sprintf("rd%d_%d", run, i)); c != 1 {
			return fmt.Sprintf("FAIL another connection of the process sees %d rows under prefix %d (expected 1): the connections are not on one bucket", c, i)
		}
	}
	// the in-memory bucket belongs to the process, not to the table that happened to use it first:
	// after the writers' tables are dropped (the first user among them) the reader still reads, and
	// a new connection can still create, write and read an in-memory table
	for i := 0; i < n; i++ {
		if _, err := conns[i].Exec(fmt.Sprintf("drop table im%d_%d", run, i)); err != nil {
			return fmt.Sprintf("FAIL drop %d: %v", i, err)
		}
	}
	if _, err := rd.Exec(fmt.Sprintf("select s3db_refresh('rd%d_0')", run)); err != nil {
		return "FAIL after the first users of the in-memory bucket dropped their tables, another connection's table cannot refresh: " + err.Error()
	}
	if c := count(rd, fmt.Sprintf("rd%d_0", run)); c != 1 {
		return fmt.Sprintf("FAIL after the first users of the in-memory bucket dropped their tables, another connection reads %d rows (expected 1)", c)
	}
	nw, err := sql.Open("sqlite3", ":memory:")
	if err != nil {
		return "FAIL open: " + err.Error()
	}
	nw.SetMaxOpenConns(1)
	defer nw.Close()
	if _, err := nw.Exec(fmt.Sprintf("create virtual table nw%d using s3db (s3_prefix='im%d_new', columns='a primary key, b')", run, run)); err != nil {
		return "FAIL after the first users of the in-memory bucket dropped their tables, no in-memory table can be created: " + err.Error()
	}
	if _, err := nw.Exec(fmt.Sprintf("insert into nw%d values (1, 'row')", run)); err != nil {
		return "FAIL insert into a new in-memory table: " + err.Error()
	}
	if c := count(nw, fmt.Sprintf("nw%d", run)); c != 1 {
		return fmt.Sprintf("FAIL new in-memory table holds %d rows (expected 1)", c)
	}
	return "ok"
}

// probeRejectedAtStorage (C20): a CREATE that is rejected while the storage is opened (the bucket
// does not exist) leaves no table registered: the corrected statement under the SAME name succeeds.
func probeRejectedAtStorage() string {
	px := getProxy()
	bucket := fmt.Sprintf("prs%d", nextCounter())
	db, err := sql.Open("sqlite3", ":memory:")
	if err != nil {
		return "FAIL " + err.Error()
	}
	defer db.Close()
	db.SetMaxOpenConns(1)
	name := fmt.Sprintf("prs_t%d", nextCounter())
	stmt := func(b string) string {
		return fmt.Sprintf("create virtual table %s using s3db(s3_bucket='%s', s3_endpoint='%s', s3_prefix='p', columns='k primary key, v')", name, b, px.url)
	}
	if _, err := db.Exec(stmt(bucket)); err == nil {
		return "FAIL a table on a bucket that does not exist was created"
	}
	if err := px.backend.CreateBucket(bucket); err != nil {
		return "FAIL setup: " + err.Error()
	}
	if _, err := db.Exec(stmt(bucket)); err != nil {
		return "FAIL after a CREATE that was rejected while opening the storage, the same name cannot be created: " + err.Error()
	}
	if _, err := db.Exec("insert into " + name + " values (1, 1)"); err != nil {
		return "FAIL insert: " + err.Error()
	}
	return "ok"
}

// probeInvalidText (C08): TEXT that is not valid UTF-8 cannot be stored (protobuf string): the
// statement is refused with an error and nothing is stored or altered.
func probeInvalidText() string {
	px := getProxy()
	bucket := fmt.Sprintf("pit%d", nextCounter())
	if err := px.backend.CreateBucket(bucket); err != nil {
		return "FAIL setup: " + err.Error()
	}
	db, err := sql.Open("sqlite3", ":memory:")
	if err != nil {
		return "FAIL " + err.Error()
	}
	defer db.Close()
	db.SetMaxOpenConns(1)
	name := fmt.Sprintf("pit_t%d", nextCounter())
	if _, err := db.Exec(fmt.Sprintf("create virtual table %s using s3db(s3_bucket='%s', s3_endpoint='%s', s3_prefix='p', columns='k primary key, v')", name, bucket, px.url)); err != nil {
		return "FAIL create: " + err.Error()
	}
	if _, err := db.Exec("insert into " + name + " values (1, 'good')"); err != nil {
		return "FAIL insert: " + err.Error()
	}
	attempts := []struct {
		what string
		stmt string
		args []interface{}
	}{
		{"INSERT of CAST(x'ff41' AS TEXT) in a column", "insert into " + name + " values (2, cast(x'ff41' as text))", nil},
		{"INSERT of a bound Latin-1 string", "insert into " + name + " values (3, ?)", []interface{}{"caf\xe9"}},
		{"UPDATE to invalid text", "update " + name + " set v = cast(x'c328' as text) where k = 1", nil},
		{"INSERT of invalid text as the key", "insert into " + name + " values (cast(x'ff' as text), 1)", nil},
	}
	for _, a := range attempts {
		var err error
		if catch(func() { _, err = db.Exec(a.stmt, a.args...) }) {
			return "FAIL " + a.what + " panics"
		}
		if err == nil {
			return "FAIL " + a.what + " is accepted (a value that cannot be stored must be refused, never altered)"
		}
	}
	var n int
	var v string
	if err := db.QueryRow("select count(*), max(v) from " + name).Scan(&n, &v); err != nil {
		return "FAIL select: " + err.Error()
	}
	if n != 1 || v != "good" {
		return fmt.Sprintf("FAIL after the refused statements the table holds %d rows, v=%q (expected 1 row, 'good')", n, v)
	}
	return "ok"
}

// probeEncryptorReuse (C18): equal plaintext under the same passphrase yields equal ciphertext —
// also from ONE long-lived encryptor that sealed other (longer) messages in between, and from a
// fresh encryptor with the same passphrase.
func probeEncryptorReuse() string {
	e := kv.V1NodeEncryptor([]byte("pass"))
	small, large := []byte("a small node"), bytes.Repeat([]byte("a much larger node "), 700)
	c1, err := e.Encrypt("x", small)
	if err != nil {
		return "FAIL encrypt: " + err.Error()
	}
	if _, err := e.Encrypt("x", large); err != nil {
		return "FAIL encrypt: " + err.Error()
	}
	c3, _ := e.Encrypt("x", small)
	c4, _ := kv.V1NodeEncryptor([]byte("pass")).Encrypt("x", small)
	if !bytes.Equal(c1, c3) {
		return "FAIL the same plaintext is sealed to different bytes by one encryptor before and after it sealed a longer message"
	}
	if !bytes.Equal(c1, c4) {
		return "FAIL two encryptors with the same passphrase seal the same plaintext to different bytes"
	}
	if m, err := e.Decrypt("x", c3); err != nil || !bytes.Equal(m, small) {
		return "FAIL round trip"
	}
	// the key is a function of the passphrase the encryptor was GIVEN: what the caller does with its
	// buffer afterwards (wiping it, reusing it) does not change the key
	buf := []byte("pass")
	e2 := kv.V1NodeEncryptor(buf)
	for i := range buf {
		buf[i] = 0
	}
	c5, err := e2.Encrypt("x", small)
	if err != nil {
		return "FAIL encrypt: " + err.Error()
	}
	if !bytes.Equal(c1, c5) {
		return "FAIL an encryptor whose caller wiped the passphrase buffer after constructing it seals under another key than the passphrase gives"
	}
	return "ok"
}


// C02 / C15: a write time the connection sets explicitly is the time its writes carry, to the
// nanosecond SQLite's time format can spell (fractional seconds are part of the format Go parses):
// two writes within one second are ordered by their fractions
func probeSubsecondWriteTime() string {
	px := getProxy()
	bucket := fmt.Sprintf("pss%d", nextCounter())
	if err := px.backend.CreateBucket(bucket); err != nil {
		return "FAIL setup: " + err.Error()
	}
	db, err := sql.Open("sqlite3", ":memory:")
	if err != nil {
		return "FAIL " + err.Error()
	}
	defer db.Close()
	db.SetMaxOpenConns(1)
	t := fmt.Sprintf("pss_t%d", nextCounter())
	steps := []string{
		fmt.Sprintf("create virtual table %s using s3db(s3_bucket='%s', s3_endpoint='%s', s3_prefix='t0', columns='k primary key, v')", t, bucket, px.url),
		"update s3db_conn set write_time='2023-11-14 22:13:30.700'",
		"insert into " + t + " values(1,'late')",
		"update s3db_conn set write_time='2023-11-14 22:13:30.200'",
		"update " + t + " set v='early' where k=1",
		"insert into " + t + " values(2,'early')",
	}
	for _, s := range steps {
		if _, err := db.Exec(s); err != nil {
			return "FAIL " + s + ": " + err.Error()
		}
	}
	var v string
	if err := db.QueryRow("select v from " + t + " where k=1").Scan(&v); err != nil {
		return "FAIL select: " + err.Error()
	}
	if v != "late" {
		return "FAIL a write at 22:13:30.200 replaced the value written at 22:13:30.700 (read back " + v + ")"
	}
	times, err := rowTimes(px, bucket, "t0")
	if err != nil {
		return "FAIL read: " + err.Error()
	}
	var fr []int64
	for _, n := range times {
		fr = append(fr, n%1000000000)
	}
	sort.Slice(fr, func(i, j int) bool { return fr[i] < fr[j] })
	if len(fr) != 2 || fr[0] != 200000000 || fr[1] != 700000000 {
		return fmt.Sprintf("FAIL stored row times lost the fractions of the write times set: %v", fr)
	}
	return "ok"
}

// C14: with a deadline set on the connection, no statement runs (much) past it, whichever storage
// request the store goes silent on; afterwards the table is usable again.
// classes: L (LIST), Gc (GET of a version), Gn (GET of a node), Pn (PUT node), Pc (PUT version),
// Pm (PUT under merged/), Dc (DELETE under current/)
var deadlineClasses = []string{"L", "Gc", "Gn", "Pn", "Pc", "Pm", "Dc"}

func probeDeadline(class string) string {
	px := newProxy()
	px.stall = 6 * time.Second
	if err := px.backend.CreateBucket("pd"); err != nil {
		return "FAIL setup: " + err.Error()
	}
	db, err := sql.Open("sqlite3", ":memory:")
	if err != nil {
		return "FAIL " + err.Error()
	}
	defer db.Close()
	db.SetMaxOpenConns(1)
	t := fmt.Sprintf("pdl_t%d", nextCounter())
	setup := []string{
		fmt.Sprintf("create virtual table %s using s3db(s3_bucket='pd', s3_endpoint='%s', s3_prefix='t', columns='k primary key, v')", t, px.url),
		"insert into " + t + " values(1,1)",
		"insert into " + t + " values(2,2)",
	}
	for _, s := range setup {
		if _, err := db.Exec(s); err != nil {
			return "FAIL " + s + ": " + err.Error()
		}
	}
	stmt := "insert into " + t + " values(3,3)"
	if class == "L" || class == "Gc" || class == "Gn" {
		stmt = fmt.Sprintf("select s3db_refresh('%s')", t)
	}
	match := func(kind, key string) bool {
		switch class {
		case "L":
			return kind == "L"
		case "Gc":
			return kind == "G" && strings.Contains(key, "/root/current/")
		case "Gn":
			return kind == "G" && strings.Contains(key, "/node/")
		case "Pn":
			return kind == "P" && strings.Contains(key, "/node/")
		case "Pc":
			return kind == "P" && strings.Contains(key, "/root/current/")
		case "Pm":
			return kind == "P" && strings.Contains(key, "/root/merged/")
		case "Dc":
			return kind == "D" && strings.Contains(key, "/root/current/")
		}
		return false
	}
	stalled := false
	px.mu.Lock()
	px.plan = func(idx int, kind, key string) int {
		if !stalled && match(kind, key) {
			stalled = true
			return fStall
		}
		return fOK
	}
	px.mu.Unlock()
	// the deadline format has second granularity: 0.5 to 1.5 s from now
	dl := time.Now().Add(1500 * time.Millisecond).UTC().Format(s3db.SQLiteTimeFormat)
	if _, err := db.Exec("update s3db_conn set deadline=?", dl); err != nil {
		return "FAIL set deadline: " + err.Error()
	}
	start := time.Now()
	done := make(chan error, 1)
	go func() {
		_, err := db.Exec(stmt)
		done <- err
	}()
	res := "ok"
	select {
	case <-done:
	case <-time.After(4 * time.Second):
		res = fmt.Sprintf("FAIL a statement whose %s request the store did not answer is still running %.1f s after the connection's deadline", class, time.Since(start).Seconds()-1.5)
		<-done
	}
	px.mu.Lock()
	px.plan = nil
	reached := stalled
	px.mu.Unlock()
	if res != "ok" {
		return res
	}
	if !reached {
		return "FAIL probe: the statement sent no " + class + " request"
	}
	if _, err := db.Exec("update s3db_conn set deadline=NULL"); err != nil {
		return "FAIL clear deadline: " + err.Error()
	}
	var n int
	if err := db.QueryRow("select count(*) from " + t).Scan(&n); err != nil {
		return "FAIL the table is unusable after the deadline expired: " + err.Error()
	}
	if n != 2 && n != 3 {
		return fmt.Sprintf("FAIL %d rows after the deadline expired (2 or 3 expected)", n)
	}
	return "ok"
}

// C10: a vacuum reclaims EVERY delete marker older than its cutoff, wherever the row sits in a tree
// of several levels: after deleting every other row of a 60-row table with 4 entries per node and
// vacuuming with a later cutoff, the stored tree holds exactly the 30 live rows
func probeVacuumReclaims() string {
	px := getProxy()
	bucket := fmt.Sprintf("pvr%d", nextCounter())
	if err := px.backend.CreateBucket(bucket); err != nil {
		return "FAIL setup: " + err.Error()
	}
	db, err := sql.Open("sqlite3", ":memory:")
	if err != nil {
		return "FAIL " + err.Error()
	}
	defer db.Close()
	db.SetMaxOpenConns(1)
	t := fmt.Sprintf("pvr_t%d", nextCounter())
	steps := []string{
		fmt.Sprintf("create virtual table %s using s3db(s3_bucket='%s', s3_endpoint='%s', s3_prefix='t0', entries_per_node=4, columns='k primary key, v')", t, bucket, px.url),
		"update s3db_conn set write_time='2023-11-14 22:13:20'",
		"begin",
	}
	for i := 0; i < 60; i++ {
		steps = append(steps, fmt.Sprintf("insert into %s values(%d,%d)", t, i, i))
	}
	steps = append(steps, "commit", "update s3db_conn set write_time='2023-11-14 22:13:30'",
		"delete from "+t+" where k % 2 = 0")
	for _, s := range steps {
		if _, err := db.Exec(s); err != nil {
			return "FAIL " + s + ": " + err.Error()
		}
	}
	for r := 0; r < 2; r++ {
		var verr sql.NullString
		if err := db.QueryRow("select vacuum_error from s3db_vacuum(?, ?)", t, "2023-11-14 22:13:40").Scan(&verr); err != nil {
			return "FAIL vacuum: " + err.Error()
		}
		if verr.Valid && verr.String != "" {
			return "FAIL vacuum: " + verr.String
		}
	}
	var n int
	if err := db.QueryRow("select count(*) from " + t).Scan(&n); err != nil || n != 30 {
		return fmt.Sprintf("FAIL %d live rows after the vacuum (30 expected) %v", n, err)
	}
	times, err := rowTimes(px, bucket, "t0")
	if err != nil {
		return "FAIL read: " + err.Error()
	}
	if len(times) != 30 {
		return fmt.Sprintf("FAIL the vacuumed tree holds %d entries for 30 live rows: %d delete markers older than the cutoff were not reclaimed", len(times), len(times)-30)
	}
	// "before the cutoff" is a comparison of the two times given, wherever the wall clock stands:
	// rows deleted at a write time in 2050 are reclaimed by a vacuum with the cutoff 2100
	for _, s := range []string{"update s3db_conn set write_time='2050-01-01 00:00:00'", "delete from " + t + " where k % 3 = 0"} {
		if _, err := db.Exec(s); err != nil {
			return "FAIL " + s + ": " + err.Error()
		}
	}
	var verr sql.NullString
	if err := db.QueryRow("select vacuum_error from s3db_vacuum(?, ?)", t, "2100-01-01 00:00:00").Scan(&verr); err != nil || (verr.Valid && verr.String != "") {
		return fmt.Sprintf("FAIL vacuum: %v %q", err, verr.String)
	}
	if err := db.QueryRow("select count(*) from " + t).Scan(&n); err != nil || n != 20 {
		return fmt.Sprintf("FAIL %d live rows after the second vacuum (20 expected) %v", n, err)
	}
	times, err = rowTimes(px, bucket, "t0")
	if err != nil {
		return "FAIL read: " + err.Error()
	}
	if len(times) != 20 {
		return fmt.Sprintf("FAIL rows deleted at a write time in 2050 and vacuumed with the cutoff 2100: the tree holds %d entries for 20 live rows", len(times))
	}
	return "ok"
}

// C09 / C14: a vacuum that cannot read another writer's current version (its version object, or
// its nodes) must not go on and delete what that version still needs: whatever the vacuum
// reports, once the fault has cleared a fresh connection reads every row of both writers
func probeVacuumUnderReadFault(kind string) string {
	px := newProxy()
	bucket := "pvf"
	if err := px.backend.CreateBucket(bucket); err != nil {
		return "FAIL setup: " + err.Error()
	}
	open := func() (*sql.DB, string, error) {
		db, err := sql.Open("sqlite3", ":memory:")
		if err != nil {
			return nil, "", err
		}
		db.SetMaxOpenConns(1)
		t := fmt.Sprintf("pvf_t%d", nextCounter())
		_, err = db.Exec(fmt.Sprintf("create virtual table %s using s3db(s3_bucket='%s', s3_endpoint='%s', s3_prefix='t0', entries_per_node=4, columns='k primary key, v')", t, bucket, px.url))
		return db, t, err
	}
	list := func(prefix string) map[string]bool {
		m := map[string]bool{}
		p := gofakes3.NewPrefix(aws.String(prefix), nil)
		ol, err := px.backend.ListBucket(bucket, &p, gofakes3.ListBucketPage{})
		if err == nil {
			for _, c := range ol.Contents {
				m[c.Key] = true
			}
		}
		return m
	}
	a, ta, err := open()
	if err != nil {
		return "FAIL open A: " + err.Error()
	}
	defer a.Close()
	if _, err := a.Exec("begin"); err != nil {
		return "FAIL " + err.Error()
	}
	for i := 0; i < 40; i++ {
		if _, err := a.Exec(fmt.Sprintf("insert into %s values(%d,%d)", ta, i, i)); err != nil {
			return "FAIL insert: " + err.Error()
		}
	}
	if _, err := a.Exec("commit"); err != nil {
		return "FAIL commit: " + err.Error()
	}
	b, tb, err := open()
	if err != nil {
		return "FAIL open B: " + err.Error()
	}
	defer b.Close()
	v0, n0 := list("t0/s3db-rows/root/current/"), list("t0/s3db-rows/node/")
	if _, err := b.Exec(fmt.Sprintf("insert into %s values(1000,1000)", tb)); err != nil {
		return "FAIL insert B: " + err.Error()
	}
	fail := map[string]bool{}
	if kind == "version" {
		for k := range list("t0/s3db-rows/root/current/") {
			if !v0[k] {
				fail[k] = true
			}
		}
	} else {
		for k := range list("t0/s3db-rows/node/") {
			if !n0[k] {
				fail[k] = true
			}
		}
	}
	if len(fail) == 0 {
		return "FAIL probe: the second writer stored no " + kind + " object of its own"
	}
	if _, err := a.Exec(fmt.Sprintf("update %s set v = v + 100", ta)); err != nil {
		return "FAIL rewrite: " + err.Error()
	}
	px.mu.Lock()
	px.plan = func(idx int, k, key string) int {
		if k == "G" && fail[key] {
			return fErr
		}
		return fOK
	}
	px.mu.Unlock()
	var verr sql.NullString
	qerr := a.QueryRow("select vacuum_error from s3db_vacuum(?, ?)", ta, "2100-01-01 00:00:00").Scan(&verr)
	px.mu.Lock()
	px.plan = nil
	px.mu.Unlock()
	reported := qerr != nil || (verr.Valid && verr.String != "")
	c, tc, err := open()
	if err != nil {
		return fmt.Sprintf("FAIL after a vacuum during which the other writer's %s object could not be read (vacuum reported an error: %v), the table cannot be opened any more: %v", kind, reported, err)
	}
	defer c.Close()
	var n, sum int
	if err := c.QueryRow("select count(*), sum(v) from " + tc).Scan(&n, &sum); err != nil || n != 41 {
		return fmt.Sprintf("FAIL after a vacuum during which the other writer's %s object could not be read (vacuum reported an error: %v), a fresh connection reads %d rows, %v (41 expected)", kind, reported, n, err)
	}
	return "ok"
}

// C18: a prefix written WITHOUT node encryption is refused by a client configured with a node
// encryptor (what is stored is not a box sealed under its key), not read as if it were trusted
func probeUnencryptedRefused() string {
	st := newFakeS3()
	cfg := kv.Config{
		Storage:    &kv.S3BucketInfo{EndpointURL: "fake", BucketName: "b", Prefix: "mix"},
		KeysLike:   "key",
		ValuesLike: "value",
	}
	ctx := context.Background()
	db, err := kv.Open(ctx, st, cfg, kv.OpenOptions{}, time.Unix(1700000000, 0))
	if err != nil {
		return "FAIL open: " + err.Error()
	}
	for i := 0; i < 5; i++ {
		if err := db.Set(ctx, time.Unix(1700000000+int64(i), 0), fmt.Sprintf("k%d", i), fmt.Sprintf("plain-%d", i)); err != nil {
			return "FAIL set: " + err.Error()
		}
	}
	if _, err := db.Commit(ctx); err != nil {
		return "FAIL commit: " + err.Error()
	}
	cfg2 := cfg
	cfg2.NodeEncryptor = kv.V1NodeEncryptor([]byte("passphrase"))
	db2, err := kv.Open(ctx, st, cfg2, kv.OpenOptions{ReadOnly: true}, time.Unix(1700000100, 0))
	if err != nil {
		return "ok"
	}
	var v string
	found, err := db2.Get(ctx, "k1", &v)
	if err != nil {
		return "ok"
	}
	return fmt.Sprintf("FAIL a client with a node encryptor read a node that is not sealed under its key (found=%v value=%q)", found, v)
}

// C20: the documented arguments are accepted in whatever order they are written: every rotation and
// the reversal of a full, valid argument list (bucket, endpoint, prefix, columns, entries_per_node,
// node_cache_entries) creates a table that can be written and read
func probeArgOrder() string {
	px := getProxy()
	bucket := fmt.Sprintf("pao%d", nextCounter())
	if err := px.backend.CreateBucket(bucket); err != nil {
		return "FAIL setup: " + err.Error()
	}
	db, err := sql.Open("sqlite3", ":memory:")
	if err != nil {
		return "FAIL " + err.Error()
	}
	defer db.Close()
	db.SetMaxOpenConns(1)
	base := []string{"s3_bucket='" + bucket + "'", "s3_endpoint='" + px.url + "'", "s3_prefix='%s'", "columns='k primary key, v'", "entries_per_node=8", "node_cache_entries=16"}
	var orders [][]string
	for r := 0; r < len(base); r++ {
		orders = append(orders, append(append([]string{}, base[r:]...), base[:r]...))
	}
	rev := make([]string, len(base))
	for i, a := range base {
		rev[len(base)-1-i] = a
	}
	orders = append(orders, rev)
	for i, o := range orders {
		name := fmt.Sprintf("pao_t%d", nextCounter())
		args := fmt.Sprintf(strings.Join(o, ", "), fmt.Sprintf("p%d", i))
		if _, err := db.Exec("create virtual table " + name + " using s3db(" + args + ")"); err != nil {
			return "FAIL a CREATE with valid arguments written in the order (" + strings.ReplaceAll(args, px.url, "<endpoint>") + ") is refused: " + err.Error()
		}
		if _, err := db.Exec("insert into " + name + " values (1, 'x')"); err != nil {
			return "FAIL insert: " + err.Error()
		}
		var v string
		if err := db.QueryRow("select v from " + name + " where k=1").Scan(&v); err != nil || v != "x" {
			return fmt.Sprintf("FAIL read back %q %v", v, err)
		}
	}
	return "ok"
}

// C15 / C19: deadline and write_time belong to the connection: dropping ONE of its s3db tables
// changes neither — the other tables keep working under the same (unexpired) deadline, and their
// writes keep carrying the explicit write time
func probeDropKeepsAttributes() string {
	px := getProxy()
	bucket := fmt.Sprintf("pdk%d", nextCounter())
	if err := px.backend.CreateBucket(bucket); err != nil {
		return "FAIL setup: " + err.Error()
	}
	db, err := sql.Open("sqlite3", ":memory:")
	if err != nil {
		return "FAIL " + err.Error()
	}
	defer db.Close()
	db.SetMaxOpenConns(1)
	ta, tb := fmt.Sprintf("pdk_a%d", nextCounter()), fmt.Sprintf("pdk_b%d", nextCounter())
	steps := []string{
		fmt.Sprintf("create virtual table %s using s3db(s3_bucket='%s', s3_endpoint='%s', s3_prefix='ta', columns='k primary key, v')", ta, bucket, px.url),
		fmt.Sprintf("create virtual table %s using s3db(s3_bucket='%s', s3_endpoint='%s', s3_prefix='tb', columns='k primary key, v')", tb, bucket, px.url),
		"update s3db_conn set deadline='2100-01-01 00:00:00', write_time='2020-01-01 00:00:00'",
		"insert into " + ta + " values(1,'one')",
		"drop table " + tb,
		"insert into " + ta + " values(2,'two')",
		"update " + ta + " set v='uno' where k=1",
	}
	for _, s := range steps {
		if _, err := db.Exec(s); err != nil {
			return "FAIL " + s + ": " + err.Error()
		}
	}
	var n int
	if err := db.QueryRow("select count(*) from " + ta).Scan(&n); err != nil || n != 2 {
		return fmt.Sprintf("FAIL after dropping another table: %d rows, %v", n, err)
	}
	var dl, wt sql.NullString
	if err := db.QueryRow("select deadline, write_time from s3db_conn").Scan(&dl, &wt); err != nil || dl.String != "2100-01-01 00:00:00" || wt.String != "2020-01-01 00:00:00" {
		return fmt.Sprintf("FAIL attributes read back %q %q %v", dl.String, wt.String, err)
	}
	times, err := rowTimes(px, bucket, "ta")
	if err != nil {
		return "FAIL read: " + err.Error()
	}
	want := time.Date(2020, 1, 1, 0, 0, 0, 0, time.UTC).UnixNano()
	for k, t := range times {
		if t != want {
			return fmt.Sprintf("FAIL the row %s written after another table was dropped carries the time %d, not the connection's write_time", k, t)
		}
	}
	return "ok"
}

// C02: the rule holds for every write time SQLite's format can spell, years before 1970 included:
// a row inserted at a time in 1960 and deleted at a later time in 1965 is gone (on the writer and
// for a connection that merges both), and an UPDATE in 1962 of a row inserted in 1960 is seen
func probeBackdated() string {
	px := getProxy()
	bucket := fmt.Sprintf("pbd%d", nextCounter())
	if err := px.backend.CreateBucket(bucket); err != nil {
		return "FAIL setup: " + err.Error()
	}
	db, err := sql.Open("sqlite3", ":memory:")
	if err != nil {
		return "FAIL " + err.Error()
	}
	defer db.Close()
	db.SetMaxOpenConns(1)
	t := fmt.Sprintf("pbd_t%d", nextCounter())
	steps := []string{
		fmt.Sprintf("create virtual table %s using s3db(s3_bucket='%s', s3_endpoint='%s', s3_prefix='t0', columns='k primary key, v')", t, bucket, px.url),
		"update s3db_conn set write_time='1960-01-01 00:00:00'",
		"insert into " + t + " values(1,'a'),(2,'b')",
		"update s3db_conn set write_time='1962-01-01 00:00:00'",
		"update " + t + " set v='b2' where k=2",
		"update s3db_conn set write_time='1965-01-01 00:00:00'",
		"delete from " + t + " where k=1",
	}
	for _, s := range steps {
		if _, err := db.Exec(s); err != nil {
			return "FAIL " + s + ": " + err.Error()
		}
	}
	check := func(d *sql.DB, tn, who string) string {
		rows, err := d.Query("select k, v from " + tn + " order by k")
		if err != nil {
			return "FAIL select: " + err.Error()
		}
		defer rows.Close()
		got := ""
		for rows.Next() {
			var k int
			var v sql.NullString
			rows.Scan(&k, &v)
			got += fmt.Sprintf("%d=%s;", k, v.String)
		}
		if got != "2=b2;" {
			return "FAIL " + who + " reads " + got + " after INSERT 1,2 @1960, UPDATE 2 @1962, DELETE 1 @1965 (expected 2=b2;)"
		}
		return ""
	}
	if r := check(db, t, "the writer"); r != "" {
		return r
	}
	rd, err := sql.Open("sqlite3", ":memory:")
	if err != nil {
		return "FAIL " + err.Error()
	}
	defer rd.Close()
	rd.SetMaxOpenConns(1)
	t2 := fmt.Sprintf("pbd_r%d", nextCounter())
	if _, err := rd.Exec(fmt.Sprintf("create virtual table %s using s3db(readonly, s3_bucket='%s', s3_endpoint='%s', s3_prefix='t0', columns='k primary key, v')", t2, bucket, px.url)); err != nil {
		return "FAIL reader: " + err.Error()
	}
	if r := check(rd, t2, "a fresh reader"); r != "" {
		return r
	}
	return "ok"
}

// C12: a changes table declared with from= only follows the table: "to" is the current version
// at the time of EACH query, not the one of the first query
func probeChangesFollowsCurrent() string {
	px := getProxy()
	bucket := fmt.Sprintf("pcf%d", nextCounter())
	if err := px.backend.CreateBucket(bucket); err != nil {
		return "FAIL setup: " + err.Error()
	}
	db, err := sql.Open("sqlite3", ":memory:")
	if err != nil {
		return "FAIL " + err.Error()
	}
	defer db.Close()
	db.SetMaxOpenConns(1)
	t := fmt.Sprintf("pcf_t%d", nextCounter())
	for _, s := range []string{
		fmt.Sprintf("create virtual table %s using s3db(s3_bucket='%s', s3_endpoint='%s', s3_prefix='t0', columns='k primary key, v')", t, bucket, px.url),
		"insert into " + t + " values(1,1)",
	} {
		if _, err := db.Exec(s); err != nil {
			return "FAIL " + s + ": " + err.Error()
		}
	}
	var ver string
	if err := db.QueryRow(fmt.Sprintf("select s3db_version('%s')", t)).Scan(&ver); err != nil {
		return "FAIL version: " + err.Error()
	}
	ch := fmt.Sprintf("pcf_c%d", nextCounter())
	if _, err := db.Exec(fmt.Sprintf("create virtual table %s using s3db_changes(table='%s', from='%s')", ch, t, ver)); err != nil {
		return "FAIL create changes table: " + err.Error()
	}
	keys := func() (string, error) {
		rows, err := db.Query("select k from " + ch + " order by k")
		if err != nil {
			return "", err
		}
		defer rows.Close()
		got := ""
		for rows.Next() {
			var k int
			rows.Scan(&k)
			got += fmt.Sprintf("%d;", k)
		}
		return got, rows.Err()
	}
	if got, err := keys(); err != nil || got != "" {
		return fmt.Sprintf("FAIL changes since the current version: %q %v (expected none)", got, err)
	}
	if _, err := db.Exec("insert into " + t + " values(2,2)"); err != nil {
		return "FAIL insert: " + err.Error()
	}
	if got, err := keys(); err != nil || got != "2;" {
		return fmt.Sprintf("FAIL after INSERT 2 the changes since the recorded version are %q %v (expected 2;)", got, err)
	}
	if _, err := db.Exec("update " + t + " set v=11 where k=1"); err != nil {
		return "FAIL update: " + err.Error()
	}
	if got, err := keys(); err != nil || got != "1;2;" {
		return fmt.Sprintf("FAIL after UPDATE 1 the changes since the recorded version are %q %v (expected 1;2;)", got, err)
	}
	if _, err := db.Exec("delete from " + t + " where k=2"); err != nil {
		return "FAIL delete: " + err.Error()
	}
	if got, err := keys(); err != nil || got != "1;" {
		return fmt.Sprintf("FAIL after DELETE 2 the changes since the recorded version are %q %v (expected 1;)", got, err)
	}
	return "ok"
}

// C18: a stored node object cut to ZERO bytes is a modification like any other: it is reported as
// an error, the version that needs it is not silently left out
func probeEmptiedNode() string {
	st := newFakeS3()
	cfg := kv.Config{
		Storage:       &kv.S3BucketInfo{EndpointURL: "fake", BucketName: "b", Prefix: "cut"},
		KeysLike:      "key",
		ValuesLike:    "value",
		NodeEncryptor: kv.V1NodeEncryptor([]byte("passphrase")),
	}
	ctx := context.Background()
	db, err := kv.Open(ctx, st, cfg, kv.OpenOptions{}, time.Unix(1700000000, 0))
	if err != nil {
		return "FAIL open: " + err.Error()
	}
	for i := 0; i < 3; i++ {
		if err := db.Set(ctx, time.Unix(1700000000+int64(i), 0), fmt.Sprintf("k%d", i), fmt.Sprintf("v%d", i)); err != nil {
			return "FAIL set: " + err.Error()
		}
	}
	if _, err := db.Commit(ctx); err != nil {
		return "FAIL commit: " + err.Error()
	}
	n := 0
	for _, k := range st.keys("cut/node/") {
		st.mu.Lock()
		st.objs["cut/node/"+k] = []byte{}
		st.mu.Unlock()
		n++
	}
	if n == 0 {
		return "FAIL probe: no node object stored"
	}
	db2, err := kv.Open(ctx, st, cfg, kv.OpenOptions{ReadOnly: true}, time.Unix(1700000100, 0))
	if err != nil {
		return "ok"
	}
	var v string
	found, err := db2.Get(ctx, "k1", &v)
	if err != nil {
		return "ok"
	}
	return fmt.Sprintf("FAIL with every node object cut to zero bytes the table opens without an error and k1 is found=%v %q", found, v)
}
