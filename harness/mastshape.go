//go:build verif

package main

// Level "mast": node-level correspondence. Drives github.com/jrhy/mast exactly as kv/internal/crdt
// configures it for s3db row trees (keys *s3db.Key compared by Key.Order and placed by Key.Layer,
// the repository's protobuf node codec, node format V1Marshaler) over an in-memory node store, and
// prints after every operation what the Coq model Mast.v predicts: status, height, size, and — at
// every flush — the LAYOUT of the stored tree (which key in which node, which links absent), read
// back from the stored node objects with the repository's own decoder.

import (
	"bufio"
	"context"
	"encoding/hex"
	"fmt"
	"math"
	"math/rand"
	"os"
	"sort"
	"strconv"
	"strings"

	"github.com/jrhy/mast"
	"github.com/jrhy/s3db"
	"github.com/jrhy/s3db/kv/crdt"
)

func keyTok(v sval) string {
	switch v.tag {
	case 'I':
		return "I" + strconv.FormatInt(v.i, 10)
	case 'R':
		return "R" + strconv.FormatUint(v.bits, 10)
	case 'T':
		return "Tx" + hex.EncodeToString(v.bs)
	case 'B':
		return "Bx" + hex.EncodeToString(v.bs)
	}
	return "N"
}

type mastWorld struct {
	ctx   context.Context
	store mast.Persist
	cfg   *mast.RemoteConfig
	m     *mast.Mast
	bf    uint
}

func newMastWorld(bf uint) (*mastWorld, error) {
	w := &mastWorld{ctx: context.Background(), store: mast.NewInMemoryStore(), bf: bf}
	w.cfg = &mast.RemoteConfig{
		KeysLike:                       &s3db.Key{},
		ValuesLike:                     crdt.Value{},
		StoreImmutablePartsWith:        w.store,
		Marshal:                        func(i interface{}) ([]byte, error) { return s3db.VerifMarshalNode(i.(mast.Node)) },
		Unmarshal:                      func(b []byte, i interface{}) error { return s3db.VerifUnmarshalNode(b, i.(*mast.Node)) },
		UnmarshalerUsesRegisteredTypes: true,
	}
	root := mast.NewRoot(&mast.CreateRemoteOptions{BranchFactor: bf, NodeFormat: mast.V1Marshaler})
	m, err := root.LoadMast(w.ctx, w.cfg)
	if err != nil {
		return nil, err
	}
	w.m = m
	return w, nil
}

func (w *mastWorld) shapeOf(link string) (string, error) {
	b, err := w.store.Load(w.ctx, link)
	if err != nil {
		return "", err
	}
	var n mast.Node
	if err := s3db.VerifUnmarshalNode(b, &n); err != nil {
		return "", err
	}
	if len(n.Link) == 0 { // a node without children is stored without its links
		n.Link = make([]interface{}, len(n.Key)+1)
	}
	if len(n.Link) != len(n.Key)+1 {
		return "", fmt.Errorf("node with %d keys and %d links", len(n.Key), len(n.Link))
	}
	var sb strings.Builder
	sb.WriteByte('[')
	for i, l := range n.Link {
		if l == nil {
			sb.WriteByte('-')
		} else {
			s, err := w.shapeOf(l.(string))
			if err != nil {
				return "", err
			}
			sb.WriteString(s)
		}
		if i < len(n.Key) {
			sb.WriteByte(',')
			sb.WriteString(keyTok(svalOfProto(n.Key[i].(*s3db.Key).SQLiteValue)))
			sb.WriteByte(',')
		}
	}
	sb.WriteByte(']')
	return sb.String(), nil
}

// flush: MakeRoot and the layout of what was stored; reload: LoadMast of that root as well
func (w *mastWorld) flush(out *tw, reload bool) bool {
	root, err := w.m.MakeRoot(w.ctx)
	if err != nil {
		out.s("E")
		return false
	}
	if root.Link == nil {
		out.s("-")
	} else {
		s, err := w.shapeOf(*root.Link)
		if err != nil {
			out.s("E:" + strings.ReplaceAll(err.Error(), " ", "_"))
			return false
		}
		out.s(s)
	}
	if reload {
		m, err := root.LoadMast(w.ctx, w.cfg)
		if err != nil {
			out.s("E")
			return false
		}
		w.m = m
	}
	return true
}

func (w *mastWorld) walk(out *tw, c *mast.Cursor, back bool) {
	var items []string
	status := "ok"
	for steps := 0; steps < 200; steps++ {
		k, v, ok := c.Get()
		if !ok {
			break
		}
		items = append(items, keyTok(svalOfProto(k.(*s3db.Key).SQLiteValue))+":"+strconv.FormatInt(v.(crdt.Value).ModEpochNanos, 10))
		var err error
		if back {
			err = c.Backward(w.ctx)
		} else {
			err = c.Forward(w.ctx)
		}
		if err != nil {
			status = "E"
			break
		}
	}
	out.i(len(items))
	for _, it := range items {
		out.s(it)
	}
	out.s(status)
}

func runMast(seed int64, n int, dir string) error {
	g := &gen{r: rand.New(rand.NewSource(seed))}
	cf, err := os.Create(dir + "/cases.txt")
	if err != nil {
		return err
	}
	defer cf.Close()
	jf, err := os.Create(dir + "/impl.txt")
	if err != nil {
		return err
	}
	defer jf.Close()
	cw, iw := bufio.NewWriter(cf), bufio.NewWriter(jf)
	defer cw.Flush()
	defer iw.Flush()
	stats := map[string]int{}
	for c := 1; c <= n; c++ {
		bf := []uint{2, 2, 3, 3, 4, 5, 16}[g.r.Intn(7)]
		twins := g.r.Intn(25) == 0 // numerically equal INTEGER / REAL keys in one tree (finding F-C07-2)
		// key pool of the case
		var pool []sval
		np := 4 + g.r.Intn(24)
		for len(pool) < np {
			var k sval
			switch x := g.r.Intn(12); {
			case x < 7:
				k = sval{tag: 'I', i: int64(g.r.Intn(70) - 12)}
				if g.r.Intn(5) == 0 { // high layers: multiples of powers of the branch factor
					p := int64(1)
					for e := g.r.Intn(5); e > 0; e-- {
						p *= int64(bf)
					}
					k.i = p * int64(g.r.Intn(5)-1)
				}
			case x < 9:
				k = sval{tag: 'T', bs: []byte(fmt.Sprintf("k%d", g.r.Intn(400)))}
			case x < 10:
				k = sval{tag: 'B', bs: []byte{byte(g.r.Intn(256)), byte(g.r.Intn(4))}}
			default:
				f := float64(g.r.Intn(60)-10) + 0.5
				if twins {
					f = float64(g.r.Intn(40) - 5)
				}
				k = sval{tag: 'R', bits: math.Float64bits(f)}
			}
			pool = append(pool, k)
		}
		w, err := newMastWorld(bf)
		if err != nil {
			return err
		}
		in, out := &tw{}, &tw{}
		in.i(int(bf))
		nops := 5 + g.r.Intn(60)
		in.i(nops)
		if twins {
			in.s("tw")
		} else {
			in.s("nt")
		}
		live := map[string]bool{}
		dead := false
		vid := int64(0)
		for o := 0; o < nops; o++ {
			if dead {
				in.s("X") // padding after a panic: neither side runs anything
				continue
			}
			k := pool[g.r.Intn(len(pool))]
			kt := keyTok(k)
			x := g.r.Intn(100)
			if twins && x >= 45 && x < 65 {
				// no Delete in histories with numerically equal INTEGER / REAL keys (finding F-C07-2): with an
				// equal key on another level, mast's Delete can link a node to itself, and the next flush
				// recurses until the Go runtime aborts the process (stack overflow: not recoverable here)
				x = 70
			}
			if os.Getenv("VERIF_TRACE") != "" {
				fmt.Fprintf(os.Stderr, "case %d bf %d op %d choice %d key %s\n", c, bf, o, x, kt)
			}
			switch {
			case x < 45: // insert / replace
				vid++
				in.s("I")
				in.sval(k)
				in.z(vid)
				var ierr error
				if catch(func() {
					ierr = w.m.Insert(w.ctx, s3db.NewKey(k.goValue()), crdt.Value{ModEpochNanos: vid})
				}) {
					out.s("P")
					dead = true
					stats["mast_insert_panic"]++
				} else if ierr != nil {
					out.s("E")
					dead = true
				} else {
					out.s("ok")
					live[kt] = true
					stats["mast_insert"]++
				}
			case x < 65: // delete (the value must be the stored one: read it first, as RemoveTombstones does)
				in.s("D")
				in.sval(k)
				var derr error
				if catch(func() {
					var cur crdt.Value
					found, err := w.m.Get(w.ctx, s3db.NewKey(k.goValue()), &cur)
					if err != nil {
						derr = err
						return
					}
					if !found {
						derr = fmt.Errorf("absent")
						return
					}
					derr = w.m.Delete(w.ctx, s3db.NewKey(k.goValue()), cur)
				}) {
					out.s("P")
					dead = true
				} else if derr != nil {
					out.s("E")
					stats["mast_delete_absent"]++
				} else {
					out.s("ok")
					delete(live, kt)
					stats["mast_delete"]++
				}
			case x < 75: // get
				in.s("G")
				in.sval(k)
				var cur crdt.Value
				var found bool
				var gerr error
				if catch(func() { found, gerr = w.m.Get(w.ctx, s3db.NewKey(k.goValue()), &cur) }) {
					out.s("P")
				} else if gerr != nil {
					out.s("E")
				} else if !found {
					out.s("_")
				} else {
					out.s("S")
					out.z(cur.ModEpochNanos)
				}
				stats["mast_get"]++
			case x < 83: // flush and compare the stored layout
				in.s("F")
				if !w.flush(out, false) {
					dead = true
				}
				stats["mast_flush"]++
			case x < 88: // flush, then load the stored root again (thresholds recomputed from the height)
				in.s("L")
				if !w.flush(out, true) {
					dead = true
				}
				stats["mast_reload"]++
			case x < 93: // forward scan from the smallest key
				in.s("SF")
				sub := &tw{}
				sub.sb.WriteString(out.String())
				if catch(func() {
					c, err := w.m.Cursor(w.ctx)
					if err != nil {
						out.s("E")
						return
					}
					if err := c.Min(w.ctx); err != nil {
						out.s("E")
						return
					}
					w.walk(out, c, false)
				}) {
					out = sub
					out.s("P")
					dead = true
				}
				stats["mast_scan_fwd"]++
			case x < 97: // forward scan from the first key >= k
				in.s("SC")
				in.sval(k)
				sub := &tw{}
				sub.sb.WriteString(out.String())
				if catch(func() {
					c, err := w.m.Cursor(w.ctx)
					if err != nil {
						out.s("E")
						return
					}
					if w.m.Size() == 0 {
						out.i(0)
						out.s("ok")
						return
					}
					if err := c.Ceil(w.ctx, s3db.NewKey(k.goValue())); err != nil {
						out.s("E")
						return
					}
					w.walk(out, c, false)
				}) {
					out = sub
					out.s("P")
					dead = true
				}
				stats["mast_scan_ceil"]++
			default: // backward scan from the largest key
				in.s("SB")
				sub := &tw{}
				sub.sb.WriteString(out.String())
				if catch(func() {
					c, err := w.m.Cursor(w.ctx)
					if err != nil {
						out.s("E")
						return
					}
					if w.m.Size() == 0 {
						out.i(0)
						out.s("ok")
						return
					}
					if err := c.Max(w.ctx); err != nil {
						out.s("E")
						return
					}
					w.walk(out, c, true)
				}) {
					out = sub
					out.s("P")
				}
				stats["mast_scan_bwd"]++
			}
			if !dead {
				out.s("h" + strconv.Itoa(int(w.m.Height())))
				out.s("s" + strconv.FormatUint(w.m.Size(), 10))
			}
		}
		if !dead { // final layout
			w.flush(out, false)
		}
		stats[fmt.Sprintf("mast_final_height_%d", w.m.Height())]++
		stats[fmt.Sprintf("mast_bf_%d", bf)]++
		if twins {
			stats["mast_twin_cases"]++
		}
		fmt.Fprintf(cw, "%d mast%s\n", c, in.String())
		fmt.Fprintf(iw, "%d%s\n", c, out.String())
	}
	sf, _ := os.Create(dir + "/stats.txt")
	defer sf.Close()
	var ks []string
	for k := range stats {
		ks = append(ks, k)
	}
	sort.Strings(ks)
	for _, k := range ks {
		fmt.Fprintf(sf, "%s %d\n", k, stats[k])
	}
	return nil
}
