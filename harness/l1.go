//go:build verif

package main

// L1: histories of kv.DB operations over several handles against the in-process store.
// Modes: "rows" (the s3db configuration: Key / Row / mergeValues / protobuf nodes) and
// "plain" / "cb" (kv defaults: int keys, string values, LWW; cb adds OnConflictMerged).

import (
	"encoding/json"
	"math"
	"bufio"
	"context"
	"fmt"
	"math/rand"
	"os"
	"sort"
	"strconv"
	"strings"
	"time"

	"github.com/jrhy/s3db"
	"github.com/jrhy/s3db/kv"
	"github.com/jrhy/s3db/kv/crdt"
	v1proto "github.com/jrhy/s3db/proto/v1"
)

type namer struct {
	m   map[string]int
	pfx string
}

func newNamer(pfx string) *namer { return &namer{m: map[string]int{}, pfx: pfx} }

func (n *namer) nm(raw string) string {
	if raw == "" {
		return n.pfx + "0"
	}
	if i, ok := n.m[raw]; ok {
		return n.pfx + strconv.Itoa(i)
	}
	i := len(n.m) + 1
	n.m[raw] = i
	return n.pfx + strconv.Itoa(i)
}

const l1Prefix = "p"

func classify(key string) (string, string) {
	switch {
	case strings.HasPrefix(key, l1Prefix+"/root/current/"):
		return "c", strings.TrimPrefix(key, l1Prefix+"/root/current/")
	case strings.HasPrefix(key, l1Prefix+"/root/merged/"):
		return "m", strings.TrimPrefix(key, l1Prefix+"/root/merged/")
	case strings.HasPrefix(key, l1Prefix+"/node/"):
		return "n", strings.TrimPrefix(key, l1Prefix+"/node/")
	}
	return "?", key
}

type l1world struct {
	mode        string
	bf          int
	s3          *fakeS3
	nm          *namer
	nn          *namer
	hs          map[int]*kv.DB
	opened      []*kv.DB
	mutReqs     int
	conflicts   int
	in, out     *tw
	ops         *tw
	nops        int
	lastDeleted int
	faulty      bool
	crashy      bool
	fired       int
	emptied     map[int]bool
	commitFailed bool
	roH         map[int]bool
}

func (w *l1world) cfg() kv.Config {
	switch w.mode {
	case "rows":
		return s3db.VerifKVConfig("fake", "b", l1Prefix, w.bf, 0)
	default:
		c := kv.Config{
			Storage:      &kv.S3BucketInfo{EndpointURL: "fake", BucketName: "b", Prefix: l1Prefix},
			KeysLike:     1234,
			ValuesLike:   "hi",
			BranchFactor: uint(w.bf),
		}
		if w.mode == "cb" {
			c.OnConflictMerged = func(key, v1, v2 interface{}) error { w.conflicts++; return nil }
		}
		if w.mode == "json" {
			// a custom node marshaler: what is reloaded from storage went through JSON (a tombstone's
			// empty value comes back as a typed zero, not nil)
			c.CustomMarshal = json.Marshal
			c.CustomUnmarshal = json.Unmarshal
		}
		return c
	}
}

// mutation log of the op just executed: tokens in issue order; returns retire order too
func (w *l1world) muts(out *tw, opn, cls string) (getOrder, retireOrder []string) {
	log := w.s3.takeLog()
	if os.Getenv("VERIF_TRACE") != "" {
		for _, r := range log {
			cl, name := classify(r.key)
			if len(name) > 8 {
				name = name[:8]
			}
			fmt.Fprintf(os.Stderr, "  %s %s %s ok=%v\n", r.kind, cl, name, r.ok)
		}
		fmt.Fprintln(os.Stderr, "  --")
	}
	var toks []string
	seen := map[string]bool{}
	w.mutReqs = 0
	for _, r := range log {
		cl, name := classify(r.key)
		if r.kind == "P" || r.kind == "D" {
			w.mutReqs++ // every PUT / DELETE the operation sent, node objects included, answered or not
		}
		if r.kind == "G" && (cl == "c" || cl == "m") {
			if !seen[name] {
				seen[name] = true
				getOrder = append(getOrder, name)
			}
		}
		if !r.ok || (r.kind != "P" && r.kind != "D") {
			continue
		}
		if r.kind == "P" && cl == "m" {
			retireOrder = append(retireOrder, name)
		}
		if cl == "n" {
			toks = append(toks, r.kind+cl+w.nn.nm(name))
		} else {
			toks = append(toks, r.kind+cl+w.nm.nm(name))
		}
	}
	out.s("M")
	out.s(opn)
	for _, t := range toks {
		out.s(t)
	}
	out.s(cls)
	return
}

func (w *l1world) names(out *tw, l []string) {
	out.i(len(l))
	for _, n := range l {
		out.s(w.nm.nm(n))
	}
}

func plainVal(p int64) string { return "v" + strconv.FormatInt(p, 10) }
func plainID(v interface{}) (int64, bool) {
	s, ok := v.(string)
	if !ok {
		return 0, false
	}
	n, err := strconv.ParseInt(strings.TrimPrefix(s, "v"), 10, 64)
	return n, err == nil
}

func (w *l1world) keyArg(k sval) interface{} {
	if w.mode == "rows" {
		return s3db.NewKey(k.goValue())
	}
	return int(k.i)
}

func (w *l1world) keyOut(out *tw, k interface{}) {
	switch x := k.(type) {
	case *s3db.Key:
		out.sval(svalOfProto(x.SQLiteValue))
	case int:
		out.sval(sval{tag: 'I', i: int64(x)})
	default:
		out.s("?")
	}
}

// payload printing: rows mode prints the canonical row at time md; plain prints the id
func (w *l1world) payload(out *tw, md int64, v interface{}) {
	if w.mode == "rows" {
		r, _ := v.(*v1proto.Row)
		if r == nil {
			out.s("_")
		} else {
			out.s("S")
			out.absRow(md, r)
		}
		return
	}
	if id, ok := plainID(v); ok {
		out.s("S")
		out.z(id)
	} else {
		out.s("_")
	}
}

func (w *l1world) cval(out *tw, v *crdt.Value) {
	out.z(v.ModEpochNanos)
	out.z(v.TombstoneSinceEpochNanos)
	out.s(w.nm.nm(v.PreviousRoot))
	w.payload(out, v.ModEpochNanos, v.Value)
}

func (w *l1world) dump(out *tw, db *kv.DB) error {
	ctx := context.Background()
	c, err := db.Cursor(ctx)
	if err != nil {
		return err
	}
	if err = c.Min(ctx); err != nil {
		return err
	}
	var sub tw
	n := 0
	for {
		k, v, ok := c.Get()
		if !ok {
			break
		}
		n++
		w.keyOut(&sub, k)
		w.cval(&sub, v)
		if err = c.Forward(ctx); err != nil {
			return err
		}
	}
	out.i(n)
	out.sb.WriteString(sub.String())
	return nil
}

// one abstract operation of a kv history
type kop struct {
	kind          string
	h, h2         int
	ro            bool
	when, seed    int64
	before, after int64
	only          []string // canonical version names (#k); nil = none
	key           sval
	row           mrow
	pval          int64
	faults        []faultSpec
	scripted      bool // part of a script: no random fault is added
	bf            int  // open with this configured branch factor instead of the world's (op "openbf")
}

// a fault aimed at the occ-th request of one kind on one prefix (optionally one object)
type faultSpec struct {
	kind  string // L G P D
	class string // c m n
	name  string // canonical (#k / %k) or "*"
	occ    int
	out    int  // fErr / fGone
	sticky bool // also every later matching request
}

var kindNum = map[string]int{"L": 0, "G": 1, "P": 2, "D": 3}

func (w *l1world) installFaults(fs []faultSpec, o *tw) {
	if len(fs) == 0 {
		w.s3.plan = nil
		return
	}
	counts := make([]int, len(fs))
	w.s3.plan = func(idx int, kind, key string) int {
		cl, raw := classify(key)
		if kind == "L" {
			// the key of a LIST is its prefix
			switch {
			case strings.HasSuffix(key, "/root/current/"):
				cl = "c"
			case strings.HasSuffix(key, "/root/merged/"):
				cl = "m"
			case strings.HasSuffix(key, "/node/"):
				cl = "n"
			}
		}
		res := fOK
		for i, f := range fs {
			if f.kind != kind || f.class != cl {
				continue
			}
			if f.name != "*" {
				var canon string
				if cl == "n" {
					canon = w.nn.nm(raw)
				} else {
					canon = w.nm.nm(raw)
				}
				if canon != f.name {
					continue
				}
			}
			if (counts[i] == f.occ || (f.sticky && counts[i] > f.occ)) && res == fOK {
				res = f.out
				w.fired++
			}
			counts[i]++
		}
		return res
	}
	for _, f := range fs {
		o.s("F")
		o.i(kindNum[f.kind])
		o.s(f.class)
		o.s(f.name)
		o.i(f.occ)
		switch {
		case f.out == fGone && f.sticky:
			o.s("G")
		case f.out == fGone:
			o.s("g")
		case f.sticky:
			o.s("E")
		default:
			o.s("e")
		}
	}
}

// canonical names (%k) of the root nodes of the versions under current/
func (w *l1world) currentRootNodes() []string {
	var res []string
	snap := w.s3.snapshot()
	for _, name := range w.s3.keys(l1Prefix + "/root/current/") {
		var r struct{ Link *string }
		if json.Unmarshal(snap[l1Prefix+"/root/current/"+name], &r) == nil && r.Link != nil {
			if _, ok := w.nn.m[*r.Link]; ok {
				res = append(res, w.nn.nm(*r.Link))
			}
		}
	}
	sort.Strings(res)
	return res
}

func okerr(out *tw, err error) {
	if err != nil && os.Getenv("VERIF_TRACE") != "" {
		fmt.Fprintf(os.Stderr, "  error: %v\n", err)
	}
	if err != nil {
		out.s("err")
	} else {
		out.s("ok")
	}
}

func (w *l1world) rawName(canon string) string {
	for raw, i := range w.nm.m {
		if "#"+strconv.Itoa(i) == canon {
			return raw
		}
	}
	return "unknown-" + canon
}

// exec runs one operation on the implementation; appends observations to w.out and the
// operation (with observed orders) to w.ops; returns names the op made known (commit)
func (w *l1world) exec(op *kop, hstats map[string]int) (known string, ok bool) {
	ctx := context.Background()
	out := w.out
	var o tw
	db := w.hs[op.h]
	needsH := op.kind != "open" && op.kind != "openbf" && op.kind != "list" && op.kind != "recover"
	if needsH && db == nil {
		return "", false
	}
	if os.Getenv("VERIF_TRACE") != "" {
		fmt.Fprintf(os.Stderr, "OP %s h=%d\n", op.kind, op.h)
	}
	w.installFaults(op.faults, &o)
	defer func() { w.s3.plan = nil }()
	switch op.kind {
	case "open", "openbf":
		opts := kv.OpenOptions{ReadOnly: op.ro}
		if op.only != nil {
			for _, c := range op.only {
				opts.OnlyVersions = append(opts.OnlyVersions, w.rawName(c))
			}
			if opts.OnlyVersions == nil {
				opts.OnlyVersions = []string{}
			}
		}
		rand.Seed(op.seed)
		w.s3.resetLog()
		var ndb *kv.DB
		var err error
		ocfg := w.cfg()
		if op.kind == "openbf" {
			// the client configures another branch factor: it only applies to a table that has no
			// version yet (a stored tree keeps the branch factor it was written with)
			if w.mode == "rows" {
				ocfg = s3db.VerifKVConfig("fake", "b", l1Prefix, op.bf, 0)
			} else {
				ocfg.BranchFactor = uint(op.bf)
			}
		}
		panicked := catch(func() { ndb, err = kv.Open(ctx, w.s3, ocfg, opts, time.Unix(0, op.when)) })
		out.s(";")
		if panicked {
			out.s("panic")
			err = fmt.Errorf("panic")
			hstats["open_panic"]++
		} else {
			okerr(out, err)
		}
		var mo tw
		getOrder, retire := w.muts(&mo, "[", "]")
		out.sb.WriteString(mo.String())
		if op.ro {
			// C13: a read-only open sends no PUT and no DELETE, whatever it merges
			out.s("RO:" + strconv.Itoa(w.mutReqs))
		}
		o.s(op.kind)
		o.i(op.h)
		o.b(op.ro)
		o.z(op.when)
		o.z(op.seed)
		if op.kind == "openbf" {
			o.i(op.bf)
		}
		if op.only != nil {
			o.i(len(op.only))
			for _, c := range op.only {
				o.s(c)
			}
		} else {
			o.i(-1)
		}
		w.names(&o, getOrder)
		w.names(&o, retire)
		if err == nil {
			w.hs[op.h] = ndb
			w.roH[op.h] = op.ro
			w.opened = append(w.opened, ndb)
			ok = true
			hstats["open_ok"]++
			if len(getOrder) >= 2 {
				hstats[fmt.Sprintf("open_fanin_%d", min(len(getOrder), 4))]++
			}
		} else {
			hstats["open_err"]++
		}
	case "set":
		o.s("set")
		o.i(op.h)
		o.z(op.when)
		o.sval(op.key)
		var err error
		if w.mode == "rows" {
			o.mrow(op.row)
			err = db.Set(ctx, time.Unix(0, op.when), w.keyArg(op.key), op.row.protoCanon())
		} else {
			o.z(op.pval)
			err = db.Set(ctx, time.Unix(0, op.when), w.keyArg(op.key), plainVal(op.pval))
		}
		out.s(";")
		okerr(out, err)
		hstats["set"]++
	case "tomb":
		o.s("tomb")
		o.i(op.h)
		o.z(op.when)
		o.sval(op.key)
		err := db.Tombstone(ctx, time.Unix(0, op.when), w.keyArg(op.key))
		out.s(";")
		okerr(out, err)
		hstats["tomb"]++
	case "commit":
		w.s3.resetLog()
		name, err := db.Commit(ctx)
		w.commitFailed = err != nil
		out.s(";")
		okerr(out, err)
		if err == nil {
			if name == nil {
				out.s("#0")
			} else {
				out.s(w.nm.nm(*name))
				known = *name
			}
		}
		var mo tw
		_, retire := w.muts(&mo, "[", "]")
		out.sb.WriteString(mo.String())
		o.s("commit")
		o.i(op.h)
		w.names(&o, retire)
		hstats["commit"]++
	case "clone":
		ndb, err := db.Clone(ctx)
		out.s(";")
		okerr(out, err)
		o.s("clone")
		o.i(op.h)
		o.i(op.h2)
		if err == nil {
			w.hs[op.h2] = ndb
			w.emptied[op.h2] = w.emptied[op.h]
			w.roH[op.h2] = w.roH[op.h]
			ok = true
		}
	case "rmtomb":
		o.s("rmtomb")
		o.i(op.h)
		o.z(op.before)
		before := db.Size()
		err := db.RemoveTombstones(ctx, time.Unix(0, op.before))
		if db.Size() < before {
			w.emptied[op.h] = true
		}
		out.s(";")
		okerr(out, err)
		hstats["rmtomb"]++
	case "get":
		o.s("get")
		o.i(op.h)
		o.sval(op.key)
		var cv crdt.Value
		found, err := db.Get(ctx, w.keyArg(op.key), &cv)
		out.s(";")
		if err != nil {
			out.s("err")
		} else if !found {
			out.s("_")
		} else {
			out.s("S")
			w.cval(out, &cv)
		}
		tb, _ := db.IsTombstoned(ctx, w.keyArg(op.key))
		out.b(tb)
	case "dump":
		o.s("dump")
		o.i(op.h)
		out.s(";")
		if err := w.dump(out, db); err != nil {
			out.s("err")
		}
		roots, err := db.Roots()
		if err != nil {
			out.s("err")
		} else {
			out.s("{")
			w.names(out, roots)
			out.s("}")
		}
		if w.roH[op.h] {
			out.s("-") // reflect.DeepEqual on protobuf rows makes the dirty flag of read-only merged views unpredictable
		} else {
			out.b(db.IsDirty())
		}
		out.u(db.Size())
	case "delhist":
		o.s("delhist")
		o.i(op.h)
		o.z(op.before)
		w.s3.resetLog()
		err := kv.DeleteHistoricVersions(ctx, db, time.Unix(0, op.before))
		out.s(";")
		okerr(out, err)
		var mo tw
		w.muts(&mo, "{", "}")
		w.lastDeleted = strings.Count(mo.String(), " D")
		out.sb.WriteString(mo.String())
		hstats["delhist"]++
	case "walk":
		// every retained version (under current/, or created after the cutoff) must be readable in
		// full: read-only open of that version alone and a scan of all its entries
		o.s("walk")
		o.z(op.before)
		bad := 0
		type rootT struct {
			Created *time.Time `json:"cr,omitempty"`
		}
		check := func(name string) {
			vdb, err := kv.Open(ctx, fromSnapshot(w.s3.snapshot()), w.cfg(), kv.OpenOptions{ReadOnly: true, OnlyVersions: []string{name}}, time.Unix(0, baseTime))
			if err != nil {
				if os.Getenv("VERIF_TRACE") != "" {
					fmt.Fprintf(os.Stderr, "  walk: open %s: %v\n", name, err)
				}
				bad++
				return
			}
			var sink tw
			if catch(func() { err = w.dump(&sink, vdb) }) || err != nil {
				if os.Getenv("VERIF_TRACE") != "" {
					fmt.Fprintf(os.Stderr, "  walk: scan %s: %v\n", name, err)
				}
				bad++
			}
		}
		for _, name := range w.s3.keys(l1Prefix + "/root/current/") {
			check(name)
		}
		for _, name := range w.s3.keys(l1Prefix + "/root/merged/") {
			var r rootT
			raw := w.s3.snapshot()[l1Prefix+"/root/merged/"+name]
			if json.Unmarshal(raw, &r) != nil || r.Created == nil || r.Created.UnixNano() > op.before {
				check(name)
			}
		}
		out.s(";")
		out.s("W")
		out.i(bad)
		hstats["walk"]++
	case "diff":
		db2 := w.hs[op.h2]
		if db2 == nil {
			return "", false
		}
		o.s("diff")
		o.i(op.h)
		o.i(op.h2)
		out.s(";")
		var sub tw
		n := 0
		err := db.Diff(ctx, db2, func(key, my, from interface{}) (bool, error) {
			var a, b tw
			w.payload(&a, 0, my)
			w.payload(&b, 0, from)
			if w.mode == "rows" && a.String() == b.String() {
				// reflect.DeepEqual on protobuf messages sees internal caches; rows that
				// print identically are not a difference of the visible value
				hstats["diff_spurious_proto"]++
				return true, nil
			}
			n++
			w.keyOut(&sub, key)
			sub.sb.WriteString(a.String())
			sub.sb.WriteString(b.String())
			return true, nil
		})
		if err != nil {
			out.s("err")
		} else {
			out.i(n)
			out.sb.WriteString(sub.String())
		}
		hstats["diff"]++
	case "trace":
		o.s("trace")
		o.i(op.h)
		o.sval(op.key)
		o.z(op.after)
		out.s(";")
		var sub tw
		n := 0
		w.s3.resetLog()
		err := db.TraceHistory(ctx, w.keyArg(op.key), time.Unix(0, op.after), func(when time.Time, value interface{}) (bool, error) {
			n++
			sub.z(when.UnixNano())
			w.payload(&sub, when.UnixNano(), value)
			return true, nil
		})
		w.s3.takeLog()
		if err != nil {
			out.s("err")
		} else {
			out.i(n)
			out.sb.WriteString(sub.String())
		}
		hstats["trace"]++
	case "ccommit":
		// commit with crash exploration: the commit runs for real; then for every prefix of its
		// mutation log a copy of the pre-commit bucket with that prefix applied is recovered
		// read-only and read-write (a process dying between two storage requests)
		before := w.s3.snapshot()
		w.s3.resetLog()
		name, err := db.Commit(ctx)
		out.s(";")
		okerr(out, err)
		if err == nil {
			if name == nil {
				out.s("#0")
			} else {
				out.s(w.nm.nm(*name))
				known = *name
			}
		}
		w.s3.mu.Lock()
		full := append([]reqRec{}, w.s3.log...)
		w.s3.mu.Unlock()
		var mo tw
		_, retire := w.muts(&mo, "[", "]")
		out.sb.WriteString(mo.String())
		var mutsOnly []reqRec
		for _, r := range full {
			if r.ok && (r.kind == "P" || r.kind == "D") {
				mutsOnly = append(mutsOnly, r)
			}
		}
		o.s("ccommit")
		o.i(op.h)
		w.names(&o, retire)
		o.z(op.seed)
		o.i(len(mutsOnly))
		for j := 0; j <= len(mutsOnly); j++ {
			snap := fromSnapshot(before)
			for _, r := range mutsOnly[:j] {
				if r.kind == "P" {
					snap.objs[r.key] = r.val
				} else {
					delete(snap.objs, r.key)
				}
			}
			for pass := 0; pass < 2; pass++ {
				ro := pass == 0
				s2 := fromSnapshot(snap.snapshot())
				rand.Seed(op.seed + int64(j))
				var rdb *kv.DB
				var rerr error
				panicked := catch(func() { rdb, rerr = kv.Open(ctx, s2, w.cfg(), kv.OpenOptions{ReadOnly: ro}, time.Unix(0, baseTime+5)) })
				out.s("C")
				if panicked {
					out.s("panic")
				} else if rerr != nil {
					out.s("err")
				} else {
					out.s("ok")
					if err := w.dump(out, rdb); err != nil {
						out.s("err")
					}
					rdb.Cancel()
				}
				var order, rret []string
				seen := map[string]bool{}
				for _, r := range s2.takeLog() {
					cl, nm := classify(r.key)
					if r.kind == "G" && cl == "c" && !seen[nm] {
						seen[nm] = true
						order = append(order, nm)
					}
					if r.ok && r.kind == "P" && cl == "m" {
						rret = append(rret, nm)
					}
				}
				w.names(&o, order)
				w.names(&o, rret)
			}
		}
		hstats["ccommit"]++
		hstats[fmt.Sprintf("ccommit_muts_%d", min(len(mutsOnly), 8))]++
	case "cvacuum":
		// vacuum with crash exploration (C04: "... and vacuum"): the vacuum runs for real; then for
		// every prefix of its mutation log (commit of the purged tree, retirement of the parent,
		// deletions of nodes and versions) a copy of the bucket with that prefix applied is recovered
		// read-only and read-write
		before := w.s3.snapshot()
		tbl := vacuumTable()
		tbl.Tree.Root = db
		w.s3.resetLog()
		var err error
		panicked := catch(func() { err = s3db.Vacuum(ctx, tbl.Name, time.Unix(0, op.before)) })
		sizeBefore := db.Size()
		w.hs[op.h] = tbl.Tree.Root
		if tbl.Tree.Root.Size() < sizeBefore {
			w.emptied[op.h] = true
		}
		if w.hs[op.h] != db {
			w.opened = append(w.opened, w.hs[op.h])
		}
		out.s(";")
		if panicked {
			out.s("panic")
		} else {
			okerr(out, err)
		}
		w.s3.mu.Lock()
		full := append([]reqRec{}, w.s3.log...)
		w.s3.mu.Unlock()
		var mo tw
		_, retire := w.muts(&mo, "{", "}")
		w.lastDeleted = strings.Count(mo.String(), " D")
		out.sb.WriteString(mo.String())
		var mutsOnly []reqRec
		for _, r := range full {
			if r.ok && (r.kind == "P" || r.kind == "D") {
				mutsOnly = append(mutsOnly, r)
			}
		}
		o.s("cvacuum")
		o.i(op.h)
		o.z(op.before)
		w.names(&o, retire)
		o.z(op.seed)
		o.i(len(mutsOnly))
		for j := 0; j <= len(mutsOnly); j++ {
			snap := fromSnapshot(before)
			for _, r := range mutsOnly[:j] {
				if r.kind == "P" {
					snap.objs[r.key] = r.val
				} else {
					delete(snap.objs, r.key)
				}
			}
			for pass := 0; pass < 2; pass++ {
				ro := pass == 0
				s2 := fromSnapshot(snap.snapshot())
				rand.Seed(op.seed + int64(j))
				var rdb *kv.DB
				var rerr error
				rpanic := catch(func() { rdb, rerr = kv.Open(ctx, s2, w.cfg(), kv.OpenOptions{ReadOnly: ro}, time.Unix(0, baseTime+5)) })
				out.s("C")
				if rpanic {
					out.s("panic")
				} else if rerr != nil {
					out.s("err")
				} else {
					out.s("ok")
					if err := w.dump(out, rdb); err != nil {
						out.s("err")
					}
					rdb.Cancel()
				}
				var order, rret []string
				seen := map[string]bool{}
				for _, r := range s2.takeLog() {
					cl, nm := classify(r.key)
					if r.kind == "G" && cl == "c" && !seen[nm] {
						seen[nm] = true
						order = append(order, nm)
					}
					if r.ok && r.kind == "P" && cl == "m" {
						rret = append(rret, nm)
					}
				}
				w.names(&o, order)
				w.names(&o, rret)
			}
		}
		hstats["cvacuum"]++
		hstats[fmt.Sprintf("cvacuum_muts_%d", min(len(mutsOnly), 8))]++
	case "vacuum":
		// s3db.Vacuum on a registered table whose tree is this handle (rows mode only)
		o.s("vacuum")
		o.i(op.h)
		o.z(op.before)
		tbl := vacuumTable()
		tbl.Tree.Root = db
		w.s3.resetLog()
		var err error
		panicked := catch(func() { err = s3db.Vacuum(ctx, tbl.Name, time.Unix(0, op.before)) })
		sizeBefore := db.Size()
		w.hs[op.h] = tbl.Tree.Root
		if tbl.Tree.Root.Size() < sizeBefore {
			w.emptied[op.h] = true
		}
		if w.hs[op.h] != db {
			w.opened = append(w.opened, w.hs[op.h])
		}
		out.s(";")
		if panicked {
			out.s("panic")
		} else {
			okerr(out, err)
		}
		var mo tw
		_, retire := w.muts(&mo, "{", "}")
		w.lastDeleted = strings.Count(mo.String(), " D")
		out.sb.WriteString(mo.String())
		w.names(&o, retire)
		hstats["vacuum"]++
	case "recover":
		// a fresh process, after every fault has cleared: read-only open of a copy of the bucket
		o.s("recover")
		o.z(op.seed)
		out.s(";")
		snap := fromSnapshot(w.s3.snapshot())
		rand.Seed(op.seed)
		var rdb *kv.DB
		var err error
		panicked := catch(func() { rdb, err = kv.Open(ctx, snap, w.cfg(), kv.OpenOptions{ReadOnly: true}, time.Unix(0, baseTime)) })
		if panicked {
			out.s("panic")
		} else if err != nil {
			out.s("err")
		} else {
			out.s("ok")
			if err := w.dump(out, rdb); err != nil {
				out.s("err")
			}
			rdb.Cancel()
		}
		var order []string
		seen := map[string]bool{}
		for _, r := range snap.takeLog() {
			cl, name := classify(r.key)
			if r.kind == "G" && cl == "c" && !seen[name] {
				seen[name] = true
				order = append(order, name)
			}
		}
		w.names(&o, order)
		hstats["recover"]++
	case "mark":
		// (marks the position of the two final read-only opens in different merge orders)
		o.s("mark")
		out.s(";")
		out.s("MK")
	case "list":
		o.s("list")
		out.s(";")
		for _, p := range []string{"/root/current/", "/root/merged/"} {
			out.s("{")
			w.names(out, w.s3.keys(l1Prefix+p))
			out.s("}")
		}
		nodes := w.s3.keys(l1Prefix + "/node/")
		out.s("{n")
		out.i(len(nodes))
		for _, n := range nodes {
			out.s(w.nn.nm(n))
		}
		out.s("}")
	default:
		panic("unknown op " + op.kind)
	}
	w.ops.sb.WriteString(o.String())
	w.nops++
	return known, ok
}

func newL1World(mode string, bf int) *l1world {
	return &l1world{mode: mode, bf: bf, s3: newFakeS3(), nm: newNamer("#"), nn: newNamer("%"), hs: map[int]*kv.DB{}, in: &tw{}, out: &tw{}, ops: &tw{}, emptied: map[int]bool{}, roH: map[int]bool{}}
}

func (w *l1world) finish() (string, string) {
	for _, db := range w.opened {
		db.Cancel()
	}
	w.in.s(w.mode)
	w.in.i(w.bf)
	w.in.i(w.nops)
	w.in.sb.WriteString(w.ops.String())
	if w.mode == "cb" && !strings.Contains(w.ops.String(), " F ") {
		w.out.s(";")
		w.out.i(w.conflicts)
	}
	return w.in.String(), w.out.String()
}

// generate-and-run one history
func runL1History(g *gen, mode string, nops int, hstats map[string]int, faulty, crashy bool) (string, string) {
	bf := []int{4096, 4096, 2, 3}[g.r.Intn(4)]
	if mode == "rows" {
		bf = 4096 // the one-node model is exact only while the tree has a single node
	}
	w := newL1World(mode, bf)
	w.faulty = faulty
	w.crashy = crashy
	if faulty {
		w.bf, bf = 4096, 4096 // request-exact fault plans need single-node trees
	}
	var keys []sval
	nk := 2 + g.r.Intn(4)
	if bf < 4096 {
		nk = 6 + g.r.Intn(10) // several nodes per tree: versions share sub-trees
	}
	for i := 0; i < nk; i++ {
		if mode == "rows" {
			keys = append(keys, []sval{{tag: 'I', i: int64(i)}, {tag: 'T', bs: []byte{byte(97 + i)}}, {tag: 'R', bits: uint64(0x3ff0000000000000) + uint64(i)<<48}}[g.r.Intn(3)])
		} else {
			keys = append(keys, sval{tag: 'I', i: int64(i * 3)})
		}
	}
	ncols := 1 // one column: protobuf map order makes node bytes nondeterministic otherwise
	var live []int
	var known []string
	nextH := 0
	lat := func() int64 { return baseTime + int64(g.r.Intn(8))*10 }
	key := func() sval { return keys[g.r.Intn(len(keys))] }
	var delTimes []int64
	ending := false
	var maxCutoff int64 = -1 << 62
	endAfterScript := false // the history is the script, then the two final readers
	// scripted openings: several writers that never saw each other (k unmerged current versions)
	var script []*kop
	if g.r.Intn(4) == 0 {
		k := 3 + g.r.Intn(2)
		for i := 0; i < k; i++ {
			script = append(script, &kop{kind: "open", h: nextH + i, when: baseTime - 3000000000 + int64(i)*1000000000, seed: g.r.Int63n(1000000)})
		}
		sameKey := mode != "rows" && g.r.Intn(2) == 0 // tombstones of ONE key at different times meet in the merge
		perm := g.r.Perm(k)
		for i := 0; i < k; i++ {
			op := &kop{kind: "set", h: nextH + i, key: keys[i%len(keys)], when: baseTime + int64(perm[i])*10}
			if sameKey {
				op.kind, op.key = "tomb", keys[0]
			} else if mode == "rows" {
				op.row = g.row(ncols, true)
			} else {
				op.pval = int64(g.r.Intn(50))
			}
			script = append(script, op, &kop{kind: "commit", h: nextH + i})
		}
		nextH += k
		hstats["script_fanin"]++
	}
	if !faulty && !crashy && mode == "rows" && len(script) == 0 && g.r.Intn(5) == 0 {
		// regrouping: A and B write one key at different times (B, later, does not assign the column);
		// a third handle merges both and commits M (its entry carries B's time and A's cell); B goes
		// on to B'.  The final readers merge {M, B'} in two orders and must agree: the entries of M
		// and B' for that key have EQUAL times and different contents.
		hA, hB, hM := nextH, nextH+1, nextH+2
		nextH += 3
		k0 := keys[0]
		script = append(script,
			&kop{kind: "open", h: hA, when: baseTime - 5000000000, seed: g.r.Int63n(1000000)},
			&kop{kind: "open", h: hB, when: baseTime - 4000000000, seed: g.r.Int63n(1000000)},
			&kop{kind: "set", h: hA, key: k0, when: baseTime + 10, row: mrow{cols: []mcol{{present: true, v: g.smallVal()}}}},
			&kop{kind: "set", h: hB, key: k0, when: baseTime + 20, row: mrow{cols: []mcol{{present: false}}}},
			&kop{kind: "commit", h: hA}, &kop{kind: "commit", h: hB},
			&kop{kind: "open", h: hM, when: baseTime - 3000000000, seed: g.r.Int63n(1000000)},
			&kop{kind: "commit", h: hM},
			&kop{kind: "set", h: hB, key: keys[len(keys)-1], when: baseTime + 30, row: mrow{cols: []mcol{{present: true, v: g.smallVal()}}}},
			&kop{kind: "commit", h: hB},
			&kop{kind: "open", h: nextH, ro: true, when: baseTime - 1000000000, seed: g.r.Int63n(1000000)}, &kop{kind: "dump", h: nextH},
			&kop{kind: "open", h: nextH + 1, ro: true, when: baseTime - 1000000000, seed: g.r.Int63n(1000000)}, &kop{kind: "dump", h: nextH + 1})
		nextH += 2
		hstats["script_regroup"]++
		ending = true
		endAfterScript = true
	}
	if !faulty && !crashy && mode == "rows" && len(script) == 0 && g.r.Intn(5) == 0 {
		// the cutoff boundary: a row deleted exactly AT the cutoff keeps its delete marker, a cutoff
		// one nanosecond later purges it; an older write of the key merged afterwards must lose
		// against the kept marker
		t := baseTime + int64(1+g.r.Intn(6))*10
		h0, h1 := nextH, nextH+1
		nextH += 2
		k := keys[0]
		script = append(script,
			&kop{kind: "open", h: h0, when: baseTime - 3000000000, seed: g.r.Int63n(1000000)},
			&kop{kind: "open", h: h1, when: baseTime - 2000000000, seed: g.r.Int63n(1000000)},
			&kop{kind: "set", h: h1, key: k, when: t - 5, row: mrow{cols: []mcol{{present: true, v: g.smallVal()}}}},
			&kop{kind: "set", h: h0, key: k, when: t, row: mrow{del: true}},
			&kop{kind: "set", h: h0, key: keys[1%len(keys)], when: t, row: mrow{cols: []mcol{{present: true, v: g.smallVal()}}}},
			&kop{kind: "commit", h: h0},
			&kop{kind: "vacuum", h: h0, before: t}, &kop{kind: "dump", h: h0},
			&kop{kind: "commit", h: h1},
			&kop{kind: "open", h: nextH, ro: true, when: baseTime - 1000000000, seed: g.r.Int63n(1000000)}, &kop{kind: "dump", h: nextH},
			&kop{kind: "vacuum", h: h0, before: t + 1}, &kop{kind: "dump", h: h0})
		nextH++
		hstats["script_cutoff_boundary"]++
	}
	if !faulty && !crashy && mode != "rows" && len(script) == 0 && g.r.Intn(5) == 0 {
		// one key written again at the SAME time in consecutive versions (an idempotent retry with
		// another value, or a tombstone at the time of the value): TraceHistory must stay strictly
		// decreasing in time
		h := nextH
		nextH++
		k := keys[0]
		t := baseTime + int64(1+g.r.Intn(5))*10
		script = append(script,
			&kop{kind: "open", h: h, when: baseTime - 4000000000, seed: g.r.Int63n(1000000)},
			&kop{kind: "set", h: h, key: k, when: t - 10, pval: 1}, &kop{kind: "commit", h: h},
			&kop{kind: "set", h: h, key: k, when: t, pval: 2}, &kop{kind: "commit", h: h},
			&kop{kind: "set", h: h, key: k, when: t, pval: 3}, &kop{kind: "commit", h: h},
			&kop{kind: "trace", h: h, key: k, after: baseTime - 100})
		if g.r.Intn(2) == 0 {
			script = append(script, &kop{kind: "tomb", h: h, key: k, when: t}, &kop{kind: "commit", h: h},
				&kop{kind: "trace", h: h, key: k, after: baseTime - 100})
		}
		hstats["script_same_time_history"]++
	}
	if !faulty && !crashy && mode != "rows" && len(script) == 0 && g.r.Intn(4) == 0 {
		// a fork: one parent, two children created on either side of a cutoff, a third handle that
		// merges both and deletes history with that cutoff; every retained version is then walked
		t := func(i int64) int64 { return baseTime - 3000000000 + i*1000000000 }
		h0, hA, hB, hM := nextH, nextH+1, nextH+2, nextH+3
		nextH += 4
		script = append(script, &kop{kind: "open", h: h0, when: t(0), seed: g.r.Int63n(1000000)})
		for i, k := range keys {
			script = append(script, &kop{kind: "set", h: h0, key: k, when: baseTime + int64(i%8)*10, pval: int64(g.r.Intn(50))})
		}
		script = append(script, &kop{kind: "commit", h: h0},
			&kop{kind: "open", h: hA, when: t(1), seed: g.r.Int63n(1000000)},
			&kop{kind: "open", h: hB, when: t(3), seed: g.r.Int63n(1000000)},
			&kop{kind: "set", h: hA, key: keys[0], when: baseTime + 70, pval: 41}, &kop{kind: "commit", h: hA},
			&kop{kind: "set", h: hB, key: keys[len(keys)-1], when: baseTime + 70, pval: 42}, &kop{kind: "commit", h: hB},
			&kop{kind: "open", h: hM, when: t(5), seed: g.r.Int63n(1000000)},
			&kop{kind: "delhist", h: hM, before: t(2)}, &kop{kind: "list"})
		hstats["script_fork"]++
	}
	if !faulty && !crashy && mode != "rows" && len(script) == 0 && g.x().Intn(4) == 0 {
		// the version of the still-empty table is the EMPTY list of version names: an open restricted
		// to it is an empty tree (not "no restriction"), whatever has been committed since, and the
		// diff of the current contents against it reports every key
		h0, hE, hR := nextH, nextH+1, nextH+2
		nextH += 3
		script = append(script, &kop{kind: "open", h: h0, when: baseTime - 4000000000, seed: g.x().Int63n(1000000)})
		for i, k := range keys {
			script = append(script, &kop{kind: "set", h: h0, key: k, when: baseTime + int64(i%8)*10, pval: int64(g.x().Intn(50))})
		}
		script = append(script, &kop{kind: "commit", h: h0},
			&kop{kind: "open", h: hE, ro: true, only: []string{}, when: baseTime - 3000000000, seed: g.x().Int63n(1000000)},
			&kop{kind: "dump", h: hE},
			&kop{kind: "open", h: hR, ro: true, when: baseTime - 2000000000, seed: g.x().Int63n(1000000)},
			&kop{kind: "diff", h: hR, h2: hE}, &kop{kind: "diff", h: hE, h2: hR})
		hstats["script_empty_version"]++
	}
	if crashy && mode != "rows" && len(script) == 0 && g.r.Intn(3) == 0 {
		// a table emptied and committed (an empty current version), then opened by a client that
		// configures ANOTHER branch factor, which writes and commits — with a crash at every point of
		// that commit: old and new version may both be current afterwards and every later open must
		// still be able to merge them (the stored branch factor stays what it was)
		h0, h1 := nextH, nextH+1
		nextH += 2
		script = append(script, &kop{kind: "open", h: h0, when: baseTime - 4000000000, seed: g.r.Int63n(1000000), scripted: true})
		for i, k := range keys {
			script = append(script, &kop{kind: "set", h: h0, key: k, when: baseTime + int64(i%8)*10, pval: int64(g.r.Intn(50)), scripted: true})
		}
		script = append(script, &kop{kind: "commit", h: h0, scripted: true})
		for _, k := range keys {
			script = append(script, &kop{kind: "tomb", h: h0, key: k, when: baseTime + 90, scripted: true})
		}
		nbf := []int{4, 16, 4096}[g.r.Intn(3)]
		if nbf == bf {
			nbf = 8
		}
		script = append(script, &kop{kind: "rmtomb", h: h0, before: baseTime + 95, scripted: true}, &kop{kind: "commit", h: h0, scripted: true},
			&kop{kind: "openbf", h: h1, bf: nbf, when: baseTime - 3000000000, seed: g.r.Int63n(1000000), scripted: true},
			&kop{kind: "set", h: h1, key: keys[0], when: baseTime + 200, pval: 77, scripted: true},
			&kop{kind: "ccommit", h: h1, seed: g.r.Int63n(1000000), scripted: true},
			&kop{kind: "list", scripted: true})
		ending = true // the history is this script
		hstats["script_empty_version_other_branch_factor"]++
	}
	if faulty && mode != "rows" && len(script) == 0 && g.r.Intn(3) == 0 {
		// history deletion interrupted at its first node DELETE, then retried: a handle commits three
		// times (two superseded versions with nodes of their own), deletes all history — the first
		// DELETE of a node object fails — and retries; afterwards no superseded version and none of
		// its node objects is left (the retry in the loop below lists the bucket)
		h := nextH
		nextH++
		script = append(script, &kop{kind: "open", h: h, when: baseTime - 4000000000, seed: g.r.Int63n(1000000), scripted: true})
		for r := 0; r < 3; r++ {
			for i, k := range keys {
				if r == 0 || g.r.Intn(2) == 0 {
					script = append(script, &kop{kind: "set", h: h, key: k, when: baseTime + int64(r*8+i%8)*10, pval: int64(g.r.Intn(50)), scripted: true})
				}
			}
			script = append(script, &kop{kind: "set", h: h, key: keys[0], when: baseTime + int64(r*8+7)*10 + 5, pval: int64(100 + r), scripted: true},
				&kop{kind: "commit", h: h, scripted: true})
		}
		script = append(script, &kop{kind: "delhist", h: h, before: baseTime + 9000000000, scripted: true,
			faults: []faultSpec{{"D", "n", "*", 0, fErr, false}}})
		hstats["script_node_delete_fault_retry"]++
	}
	for step := 0; step < nops+len(script); step++ {
		choice := g.r.Intn(100)
		if len(live) == 0 {
			choice = 0
		}
		if len(script) > 0 {
			choice = 1000
		} else if ending {
			break
		}
		pick := func() int { return live[g.r.Intn(len(live))] }
		op := &kop{}
		if choice < 100 && len(live) > 0 && mode != "rows" && !crashy && g.r.Intn(14) == 0 {
			// empty the table through this handle, commit, and delete history with a cutoff long
			// before every version: nothing may be deleted, in particular not the current version
			h := pick()
			t := baseTime + 90
			for _, k := range keys {
				script = append(script, &kop{kind: "tomb", h: h, key: k, when: t})
			}
			script = append(script, &kop{kind: "rmtomb", h: h, before: t + 5}, &kop{kind: "commit", h: h},
				&kop{kind: "delhist", h: h, before: baseTime - 9000000000}, &kop{kind: "list"})
			hstats["script_empty_current"]++
			choice = 1000
			ending = true // merges with emptied versions are outside the model: the history ends here
		}
		switch {
		case choice == 1000:
			op = script[0]
			script = script[1:]
		case choice < 14:
			op.kind = "open"
			op.h = nextH
			nextH++
			op.ro = g.r.Intn(4) == 0
			op.when = baseTime + int64(g.r.Intn(6))*1000000000 - 3000000000
			op.seed = g.r.Int63n(1000000)
			if op.ro && len(known) > 0 && g.r.Intn(2) == 0 {
				n := 1 + g.r.Intn(2)
				op.only = []string{}
				for i := 0; i < n; i++ {
					op.only = append(op.only, w.nm.nm(known[g.r.Intn(len(known))]))
				}
				if g.x().Intn(4) == 0 {
					op.only = []string{} // the version of the still-empty table: an empty tree, not "no restriction"
				}
			}
		case choice < 44:
			op.kind = "set"
			op.h, op.key, op.when = pick(), key(), lat()
			if mode == "rows" {
				op.row = g.row(ncols, g.r.Intn(4) > 0)
			} else {
				op.pval = int64(g.r.Intn(50))
				if g.r.Intn(4) == 0 {
					op.kind = "tomb" // tombstones of one key at different times meet in merges
				}
			}

		case choice < 50:
			op.kind = "tomb"
			op.h, op.key, op.when = pick(), key(), lat()
			if mode == "rows" && (g.r.Intn(3) > 0 || w.faulty || w.crashy) {
				op.kind = "set"
				op.row = g.row(ncols, true)
			}
		case choice < 62:
			op.kind, op.h = "commit", pick()
			if w.crashy && g.r.Intn(2) == 0 {
				op.kind = "ccommit"
				op.seed = g.r.Int63n(1000000)
			}
		case choice < 66:
			op.kind, op.h, op.h2 = "clone", pick(), nextH
			nextH++
		case choice < 70:
			op.kind, op.h, op.before = "rmtomb", pick(), lat()+int64(g.r.Intn(3)-1)
		case choice < 76:
			op.kind, op.h, op.key = "get", pick(), key()
		case choice < 84:
			op.kind, op.h = "dump", pick()
		case choice < 88:
			op.kind, op.h, op.before = "delhist", pick(), baseTime+int64(g.r.Intn(7))*1000000000-3500000000
			if mode == "rows" && g.r.Intn(2) == 0 {
				// the table-level vacuum; cutoffs around the row times and around the version times
				op.kind = "vacuum"
				if g.r.Intn(2) == 0 {
					op.before = lat() + int64(g.r.Intn(3)-1)
					if len(delTimes) > 0 {
						// exactly at, just before, just after the time of a delete
						op.before = delTimes[g.r.Intn(len(delTimes))] + int64(g.r.Intn(3)-1)
					}
				}
			}
		case choice < 93:
			op.kind, op.h, op.h2 = "diff", pick(), pick()
		case choice < 97:
			op.kind, op.h, op.key, op.after = "trace", pick(), key(), baseTime+int64(g.r.Intn(4))*10-10
		default:
			op.kind = "list"
		}
		if op.kind == "set" && (w.faulty || w.crashy) {
			// two writes to one key at one time are byte-identical retries (the properties
			// quantify over distinct write times or identical retries)
			// (numerically equal INTEGER and REAL keys are one key: they get the same content)
			ki, kb := op.key.i, int64(op.key.bits>>40)
			if op.key.tag == 'R' {
				if f := math.Float64frombits(op.key.bits); f == math.Trunc(f) && math.Abs(f) < 1e15 {
					ki, kb = int64(f), 0
				}
			}
			sub := &gen{r: rand.New(rand.NewSource(op.when*131 + ki*17 + int64(len(op.key.bs))*5 + kb))}
			if mode == "rows" {
				op.row = sub.row(ncols, true)
			} else {
				op.pval = int64(sub.r.Intn(50))
			}
		}
		if op.kind == "set" && mode == "rows" && op.row.del {
			delTimes = append(delTimes, op.when+op.row.doff)
		}
		if op.kind == "vacuum" && w.crashy {
			op.kind = "cvacuum"
			op.seed = g.r.Int63n(1000000)
		}
		if op.kind == "rmtomb" && w.crashy && !op.scripted {
			// purging tombstones voids "a successor contains its parents" (documented
			// precondition of RemoveTombstones); purges are the subject of C09/C10
			op.kind = "dump"
		}
		if op.kind == "diff" {
			// mast's diff fails on a tree emptied in memory (RemoveTombstones); not modelled
			a, b := w.hs[op.h], w.hs[op.h2]
			if a == nil || b == nil || (a.Size() == 0 && w.emptied[op.h]) || (b.Size() == 0 && w.emptied[op.h2]) {
				op.kind, op.h2 = "dump", 0
			}
		}
		forceVanish := w.faulty && op.kind == "open" && len(op.only) == 0 && len(w.currentRootNodes()) >= 2 && g.r.Intn(2) == 0
		if op.scripted {
			// (the script decides about faults on its operations)
		} else if w.faulty && (g.r.Intn(3) == 0 || forceVanish) {
			var menu []faultSpec
			switch op.kind {
			case "open":
				// node GETs: how often mast re-reads a root during a merge depends on the shapes of the
				// two trees, so a node fault is aimed at an object — its first read (the check when the
				// version is loaded) or every read after the first (clone, merge walk)
				menu = []faultSpec{{"L", "c", "*", 0, fErr, false}, {"G", "c", "*", g.r.Intn(3), fErr, false}, {"G", "c", "*", g.r.Intn(3), fGone, false},
					{"P", "n", "*", 0, fErr, false}, {"P", "c", "*", 0, fErr, false},
					{"P", "m", "*", g.r.Intn(2), fErr, false}, {"D", "c", "*", g.r.Intn(2), fErr, false}, {"G", "m", "*", g.r.Intn(2), fErr, false}}
				if n := len(w.nn.m); n > 0 {
					for k := 0; k < 3; k++ {
						nd := "%" + strconv.Itoa(1+g.r.Intn(n))
						menu = append(menu, faultSpec{"G", "n", nd, 0, []int{fErr, fGone}[g.r.Intn(2)], false},
							faultSpec{"G", "n", nd, 1, []int{fErr, fGone}[g.r.Intn(2)], true})
					}
				}
				if mode == "rows" {
					// whether a merge that adds nothing re-stores the root node depends on
					// reflect.DeepEqual over protobuf messages (internal caches): no fault on that PUT
					var m2 []faultSpec
					for _, f := range menu {
						if !(f.kind == "P" && f.class == "n") {
							m2 = append(m2, f)
						}
					}
					menu = m2
				}
				if roots := w.currentRootNodes(); len(roots) >= 2 && g.r.Intn(2) == 0 {
					// several versions to merge: aim at the root node of one of them
					nd := roots[g.r.Intn(len(roots))]
					menu = []faultSpec{{"G", "n", nd, 0, []int{fErr, fGone}[g.r.Intn(2)], false},
						{"G", "n", nd, 1, []int{fErr, fGone}[g.r.Intn(2)], true}, {"G", "n", nd, 1, []int{fErr, fGone}[g.r.Intn(2)], true}}
				}
				if roots := w.currentRootNodes(); len(roots) >= 2 && forceVanish {
					// several versions to merge and one of the listed ones has vanished (NoSuchKey under
					// current/ and under merged/): the others must all be merged; when a single one is
					// left the opener holds exactly that version and has nothing to publish
					menu = []faultSpec{{"G", "c", "*", g.r.Intn(len(roots)), fGone, false}}
					hstats[fmt.Sprintf("fault_open_version_vanished_among_%d", min(len(roots), 3))]++
				}
			case "commit":
				menu = []faultSpec{{"P", "n", "*", 0, fErr, false}, {"P", "c", "*", 0, fErr, false}, {"P", "m", "*", g.r.Intn(2), fErr, false}, {"D", "c", "*", g.r.Intn(2), fErr, false}}
			case "delhist", "vacuum":
				// history deletion visits versions in map-iteration order: a fault keyed by "the n-th
				// request" would hit different objects in the implementation and in the model, so
				// faults are keyed by object (its n-th request), or hit the whole operation
				// (the first DELETE under merged/ comes after every node deletion and before any other
				// version deletion, whichever version it is)
				menu = []faultSpec{{"L", "c", "*", 0, fErr, false}, {"D", "c", "*", 0, fErr, false}, {"D", "m", "*", 0, fErr, false}, {"D", "m", "*", 0, fErr, false}}
				if len(known) > 0 {
					v := w.nm.nm(known[g.r.Intn(len(known))])
					menu = append(menu, faultSpec{"G", "m", v, g.r.Intn(2), fErr, false}, faultSpec{"G", "c", v, 0, fErr, false})
				}
				if n := len(w.nn.m); n > 0 && op.kind == "delhist" {
					// (Vacuum first scans the table through a cursor, which re-reads the root node: reads
					// the model's in-memory tree does not issue; node faults only for plain history deletion)
					nd := "%" + strconv.Itoa(1+g.r.Intn(n))
					// (the node is unreadable throughout the operation: a fault on its FIRST read only would
					//  hit the tolerant candidate phase or the strict keep phase depending on the order in
					//  which the implementation's map iteration visits the candidates)
					menu = append(menu, faultSpec{"G", "n", nd, 0, fErr, true})
					// the first node DELETE fails, whichever node it is: nothing has been deleted yet and
					// the version records that name the nodes are still there, so the retry below removes
					// everything the cutoff covers (no orphaned node objects)
					menu = append(menu, faultSpec{"D", "n", "*", 0, fErr, false})
					if g.r.Intn(2) == 0 {
						menu = []faultSpec{{"D", "n", "*", 0, fErr, false}}
					}
				}
			}
			if len(menu) > 0 {
				op.faults = []faultSpec{menu[g.r.Intn(len(menu))]}
				hstats["fault_"+op.kind+"_"+op.faults[0].kind+op.faults[0].class]++
			}
		}
		firedBefore := w.fired
		kn, ok := w.exec(op, hstats)
		if w.fired > firedBefore {
			hstats["fault_fired_"+op.kind]++
		}
		if len(op.faults) > 0 || (faulty && g.r.Intn(12) == 0) {
			w.exec(&kop{kind: "recover", seed: g.r.Int63n(1000000)}, hstats)
		}
		if op.kind == "delhist" && len(op.faults) == 1 && op.faults[0].kind == "D" && op.faults[0].class == "n" {
			w.exec(&kop{kind: "delhist", h: op.h, before: op.before}, hstats)
			w.exec(&kop{kind: "list"}, hstats)
			hstats["delhist_retry_after_node_delete_fault"]++
		}
		if op.kind == "commit" && w.commitFailed && faulty {
			// the handle of a failed commit: retry once (finding F-C14-1: the retry reports success
			// without writing), look at the bucket, then stop using the handle — mast has marked
			// the unsaved nodes clean and what the handle does next depends on marshalling caches
			w.exec(&kop{kind: "commit", h: op.h}, hstats)
			w.exec(&kop{kind: "recover", seed: g.r.Int63n(1000000)}, hstats)
			hstats["commit_retry_after_failure"]++
			var nl []int
			for _, h := range live {
				if h != op.h {
					nl = append(nl, h)
				}
			}
			live = nl
			w.commitFailed = false
		}
		if kn != "" {
			known = append(known, kn)
		}
		if op.kind == "delhist" || op.kind == "vacuum" || op.kind == "cvacuum" {
			// versions created before the cutoff of ANY history deletion so far may have lost nodes
			// ("until a vacuum whose cutoff covers them"): walk with the latest cutoff used
			if op.before > maxCutoff {
				maxCutoff = op.before
			}
			w.exec(&kop{kind: "walk", before: maxCutoff}, hstats)
		}
		if (op.kind == "delhist" || op.kind == "vacuum" || op.kind == "cvacuum") && w.lastDeleted > 0 {
			// other handles may now point at deleted objects (documented effect of
			// deleting history); the model keeps whole trees in memory, so stop using them
			live = []int{op.h}
			known = nil
		}
		if ok && (op.kind == "open" || op.kind == "openbf") {
			live = append(live, op.h)
		}
		if ok && op.kind == "clone" {
			live = append(live, op.h2)
		}
	}
	if !faulty && !crashy && (!ending || endAfterScript) {
		// two fresh read-only readers merge whatever is under current/ in two different orders:
		// they must see the same entries (C01)
		w.exec(&kop{kind: "mark"}, hstats)
		for i := 0; i < 2; i++ {
			op := &kop{kind: "open", h: nextH, ro: true, when: baseTime + 7000000000, seed: g.r.Int63n(1000000)}
			nextH++
			if _, ok := w.exec(op, hstats); ok {
				w.exec(&kop{kind: "dump", h: op.h}, hstats)
			} else {
				w.exec(&kop{kind: "list"}, hstats)
			}
		}
		hstats["final_two_orders"]++
	}
	return w.finish()
}

func runL1(seed int64, n int, dir string, modes []string, faulty, crashy bool) error {
	g := &gen{r: rand.New(rand.NewSource(seed))}
	cf, err := os.Create(dir + "/cases.txt")
	if err != nil {
		return err
	}
	defer cf.Close()
	jf, err := os.Create(dir + "/impl.txt")
	if err != nil {
		return err
	}
	defer jf.Close()
	cw, iw := bufio.NewWriter(cf), bufio.NewWriter(jf)
	defer cw.Flush()
	defer iw.Flush()
	stats := map[string]int{}
	for c := 1; c <= n; c++ {
		mode := modes[g.r.Intn(len(modes))]
		nops := 6 + g.r.Intn(30)
		if os.Getenv("VERIF_TRACE") != "" {
			fmt.Fprintf(os.Stderr, "CASE next\n")
		}
		in, out := runL1History(g, mode, nops, stats, faulty, crashy)
		fmt.Fprintf(cw, "%d kvhist%s\n", c, in)
		fmt.Fprintf(iw, "%d%s\n", c, out)
		stats["hist_"+mode]++
	}
	sf, _ := os.Create(dir + "/stats.txt")
	defer sf.Close()
	keys := make([]string, 0, len(stats))
	for k := range stats {
		keys = append(keys, k)
	}
	sort.Strings(keys)
	for _, k := range keys {
		fmt.Fprintf(sf, "%s %d\n", k, stats[k])
	}
	return nil
}

var theVacuumTable *s3db.VirtualTable

// a registered table (on the built-in in-memory bucket) whose Tree is swapped for the handle
// under test, so that s3db.Vacuum can be driven at the kv level
func vacuumTable() *s3db.VirtualTable {
	if theVacuumTable == nil {
		t, err := s3db.New(context.Background(), []string{"verif_vacuum_table", "columns=k primary key, c0"})
		if err != nil {
			panic(err)
		}
		theVacuumTable = t
	}
	return theVacuumTable
}
