//go:build verif

//go:debug randseednop=0
package main

import (
	"fmt"
	"os"
	"strconv"
)

func init() {
	os.Setenv("AWS_REGION", "dummy")
	os.Setenv("AWS_ACCESS_KEY_ID", "dummy")
	os.Setenv("AWS_SECRET_ACCESS_KEY", "dummy")
}

func main() {
	// with AWS_CA_BUNDLE set the AWS SDK gives every session (every table) a transport of its own,
	// whose idle connections nobody can close: thousands of tables exhaust the file descriptors.
	// The endpoints used here are plain http on localhost.
	os.Unsetenv("AWS_CA_BUNDLE")
	if len(os.Args) < 5 {
		fmt.Fprintln(os.Stderr, "usage: harness <level> <seed> <n> <outdir> [args]")
		os.Exit(2)
	}
	if os.Args[1] == "replay" {
		// harness replay <casefile> <ignored> <outdir>
		os.MkdirAll(os.Args[4], 0o755)
		if err := runReplay(os.Args[2], os.Args[4]); err != nil {
			fmt.Fprintln(os.Stderr, "harness error:", err)
			os.Exit(2)
		}
		return
	}
	seed, _ := strconv.ParseInt(os.Args[2], 10, 64)
	auxSeed = seed
	n, _ := strconv.Atoi(os.Args[3])
	dir := os.Args[4]
	os.MkdirAll(dir, 0o755)
	var err error
	switch os.Args[1] {
	case "l0":
		err = runL0(seed, n, dir)
	case "l1":
		modes := []string{"rows", "plain", "cb"}
		if len(os.Args) > 5 {
			modes = os.Args[5:]
		}
		err = runL1(seed, n, dir, modes, false, false)
	case "l1c":
		modes := []string{"rows", "plain"}
		if len(os.Args) > 5 {
			modes = os.Args[5:]
		}
		err = runL1(seed, n, dir, modes, false, true)
	case "l1f":
		modes := []string{"rows", "plain", "cb"}
		if len(os.Args) > 5 {
			modes = os.Args[5:]
		}
		err = runL1(seed, n, dir, modes, true, false)
	case "l1s":
		err = runL1S(seed, n, dir)
	case "mast":
		err = runMast(seed, n, dir)
	case "l2c":
		err = runL2C(seed, n, dir)
	case "l2t":
		err = runL2T(seed, n, dir)
	case "l2":
		prof := "single"
		if len(os.Args) > 5 {
			prof = os.Args[5]
		}
		err = runL2(seed, n, dir, prof)
	default:
		err = fmt.Errorf("unknown level %s", os.Args[1])
	}
	if err != nil {
		fmt.Fprintln(os.Stderr, "harness error:", err)
		os.Exit(2)
	}
}
